#!/venv/bin/python
"""Rebuilds DESIGN.md section 9 (which checks catch which broken trees) from mutants/results.json, seeded/*/meta.json
and seeded/results.json."""
import json, os, re
ROOT = os.path.dirname(os.path.dirname(os.path.abspath(__file__)))
out = []
out.append('## 9. Which checks catch which deliberately broken trees\n')
out.append('Three sources of broken trees were used; none of them is ever applied to /repo itself (scratch copies under `$TMPDIR`, '
           'removed after each run; checks are aimed at them with `VERIF_REPO=<copy> ./check Cxx quick`).\n')
out.append('### 9.1 The unchanged tree before the fixes\n')
out.append('`git -C /repo worktree add <dir> 7ff1841` + `VERIF_REPO=<dir> ./check Cxx quick`: every fixed finding of §7b is '
           're-reported by its check on the pre-fix tree (this is how each fix was confirmed); after the fix the check is silent.\n')
# seeded
seeds = {}
res = {}
rp = os.path.join(ROOT, 'seeded', 'results.json')
if os.path.exists(rp):
    res = json.load(open(rp))
for name in sorted(os.listdir(os.path.join(ROOT, 'seeded'))):
    mp = os.path.join(ROOT, 'seeded', name, 'meta.json')
    if os.path.exists(mp):
        seeds[name] = json.load(open(mp))
out.append('### 9.2 Defects seeded by independent sub-agents (`seeded/<id>/`)\n')
out.append('Each sub-agent saw only the text of one property and its own scratch worktree, and was asked for a realistic change that '
           'breaks the property, keeps all 2830 pinned tests green and needs something specific to manifest; from round 2 on it was '
           'also told which mechanisms were already taken. Every seed was confirmed first (demo passes on the clean tree, fails with '
           'the patch, repository tests pass with the patch - `tools/verify_seed.sh`). "first run" is the verdict of the check *as it '
           'stood when the seed arrived*; a miss was followed by strengthening the check (never by special-casing the seed), and '
           '"now" is the verdict of the current check (`tools/run_seeded.py`, results in `seeded/results.json`).\n')
rounds = {}
for name, m in seeds.items():
    rounds.setdefault(m.get('round', 1), []).append(name)
tot = {}
for rnd in sorted(rounds):
    names = rounds[rnd]
    missed = [n for n in names if str(seeds[n].get('detected_by', '')).startswith('MISSED')]
    tot[rnd] = (len(names), len(names) - len(missed))
    out.append('**Round %d** - %d seeds, %d caught by the checks as they stood, %d missed at first (all caught after strengthening).\n' % (
        rnd, len(names), len(names) - len(missed), len(missed)))
    out.append('| seed | what the change does / needs | first run | now |')
    out.append('|---|---|---|---|')
    for n in sorted(names):
        m = seeds[n]
        summ = re.sub(r'\s+', ' ', str(m.get('summary', '')))[:230].replace('|', '/')
        db = re.sub(r'\s+', ' ', str(m.get('detected_by', ''))).replace('|', '/')
        first = 'caught' if not db.startswith('MISSED') else 'missed' + (': ' + db[6:].lstrip(' :-')[:260] if len(db) > 8 else '')
        now = res.get(n, {}).get('status', '?')
        if m.get('superseded'):
            now += ' (superseded by a later fix, see meta.json)'
        out.append('| %s | %s | %s | %s |' % (n, summ, first, now))
    out.append('')
out.append('What the misses taught (each is now part of the check, see §3b): state carried between calls (caches keyed on too '
           'little, module-level tables), the *same key / same object again* paths, derived grids, argument forms (iterators, '
           'aliases, subclasses, scalar-level entry points, pre-decoded objects), values that only misbehave next to another value '
           '(5 and 5kg, same instant in two zones), boundary values (falsy ids, ints beyond 2**53, year 1/9999), oracle masks that '
           'were wider than necessary, and - for the scheduler - hazards that move into new helper functions.\n')
# mutants
mp = os.path.join(ROOT, 'mutants', 'results.json')
if os.path.exists(mp):
    r = json.load(open(mp))
    valid = [x for x in r if not x['status'].startswith('existing-tests-fail')]
    out.append('### 9.3 Hand-written mutants (`mutants/catalogue.py`, `mutants/run.py`)\n')
    out.append('%d single-edit mutants were written from the draft list of Appendix D. %d of them are not valid seeds because the '
               'repository\'s own tests already fail on them (the test-suite is good at first-order edits); of the remaining %d, '
               '%d are caught by the quick tier of their property:\n' % (
                   len(r), len(r) - len(valid), len(valid), sum(1 for x in valid if x['status'] == 'caught')))
    out.append('| property | mutant | verdict |')
    out.append('|---|---|---|')
    for x in sorted(valid, key=lambda x: (x['prop'], x['name'])):
        out.append('| %s | %s | %s |' % (x['prop'], x['name'], x['status']))
    out.append('')
text = '\n'.join(out) + '\n'
p = os.path.join(ROOT, 'DESIGN.md')
s = open(p).read()
a = s.find('## 9. Which checks catch')
b = s.find('## Appendix A')
if a < 0:
    s = s[:b] + text + '---------------------------------------------------------------------------\n\n' + s[b:]
else:
    s = s[:a] + text + '---------------------------------------------------------------------------\n\n' + s[b:]
open(p, 'w').write(s)
print('section 9 written: %d seeds, rounds %r' % (len(seeds), tot))
