#!/venv/bin/python
"""Regenerates /verif/MANIFEST.json from the table below (kept valid at all times)."""
import json, os, subprocess
ROOT = os.path.dirname(os.path.dirname(os.path.abspath(__file__)))
ALL = ['C%02d' % i for i in range(1, 21)]

CHECKS = {}
def chk(pid, technique, text, note, design):
    CHECKS[pid] = dict(technique=technique, text=text, note=note, design=design)

exec(open(os.path.join(ROOT, 'tools', 'manifest_table.py')).read())
for _pid, _txt in ADDENDA.items():
    CHECKS[_pid]['text'] += ' ' + _txt

hooks_commits = []
man = {
 'version': 1,
 'setup_cmd': './setup.sh',
 'hooks': {
  'guard': 'HSZINC_VERIF',
  'enable': 'no source hooks are needed: monitors attach from the harness (sys.monitoring, sys.addaudithook, icontract, boundary recorders); checks set HSZINC_VERIF=1 in worker environments for completeness',
  'baseline_off_cmd': 'cd /repo && env -u HSZINC_VERIF /venv/bin/python -m pytest -ra -q -p no:cacheprovider --timeout=900 --continue-on-collection-errors',
  'source_commits': hooks_commits,
  'add_only': True,
 },
 'engines': [{'name': 'vf', 'path': 'vf/', 'serves_properties': sorted(CHECKS),
              'kind_free_text': 'runtime monitoring: real hszinc code driven by exhaustive-where-finite and seeded hostile workloads in fresh worker processes; boundary recorders, reference models, independent codecs, audit hooks and a sys.monitoring line scheduler act as oracles'}],
 'checks': [],
 'notes': 'One launcher: ./check <Cxx> <quick|thorough>; ./check <Cxx> --replay <file>. Exit 0 held / 1 VIOLATION / 2 INCONCLUSIVE. known_findings.json lists genuine defects (open -> KNOWN-FINDING line, fixed -> suppress nothing). See DESIGN.md.',
 'not_applicable': [],
}
LEVELS = {'C09': 'fault_enumeration'}
for pid in ALL:
    if pid in CHECKS:
        c = CHECKS[pid]
        man['checks'].append({
            'property_id': pid,
            'quick_cmd': './check %s quick' % pid,
            'thorough_cmd': './check %s thorough' % pid,
            'evidence_file': 'evidence/%s.json' % pid,
            'replay_cmd_template': './check %s --replay {path}' % pid,
            'engine': 'vf',
            'level_claimed': {'category': LEVELS.get(pid, 'exploration'), 'text': c['text'], 'design_ref': c['design']},
            'level_note': c['note'],
            'technique': c['technique'],
        })
    else:
        man['not_applicable'].append({'property_id': pid, 'reason': 'check not built yet (in progress); the property is decidable by runtime monitoring, see DESIGN.md section 3'})
json.dump(man, open(os.path.join(ROOT, 'MANIFEST.json'), 'w'), indent=1)
import sys
sys.path.insert(0, os.path.join(ROOT, '.deps'))
import jsonschema
jsonschema.validate(man, json.load(open('/root/.vp/MANIFEST.schema.json')))
print('MANIFEST.json: %d checks, %d not_applicable, valid' % (len(man['checks']), len(man['not_applicable'])))
