#!/bin/bash
# tools/verify_seed.sh Cxx [tier] [seed|seed2]  - confirm a sub-agent's seeded defect in its scratch worktree and run our check on it.
# The worktree /tmp/wt_Cxx must be clean; the seed lives in /tmp/seed_Cxx (patch.diff, demo.py, meta.json).
id=$1; tier=${2:-quick}; round=${3:-seed}; wt=/tmp/wt_$id; sd=/tmp/${round}_$id
set -u
cd $wt || exit 9
git checkout -q -- .
echo "== demo on clean tree"; PYTHONPATH=$wt timeout 300 /venv/bin/python $sd/demo.py > $sd/demo_clean.out 2>&1; rc0=$?; tail -2 $sd/demo_clean.out; echo "rc=$rc0"
git apply $sd/patch.diff || { echo "PATCH DOES NOT APPLY"; exit 8; }
echo "== demo on patched tree"; PYTHONPATH=$wt timeout 300 /venv/bin/python $sd/demo.py > $sd/demo_patched.out 2>&1; rc1=$?; tail -3 $sd/demo_patched.out; echo "rc=$rc1"
echo "== repository tests on patched tree"; /verif/tools/baseline.py $wt | head -5
echo "== our check on patched tree"
cd /verif && VERIF_REPO=$wt timeout 3000 ./check $id $tier > $sd/check_$tier.out 2>&1; rc2=$?
grep -a "signature:\|^C[0-9][0-9] \|INCONC" $sd/check_$tier.out | cut -c1-260 | head -12; echo "check rc=$rc2"
cd $wt && git checkout -q -- .
echo "SUMMARY $id demo_clean=$rc0 demo_patched=$rc1 check_$tier=$rc2"
