#!/venv/bin/python
"""Re-run every kept seeded defect (seeded/<id>/) against the current checks: apply the patch to a scratch copy of
/repo's working tree (outside /repo and /verif, removed afterwards), confirm the demonstration fails there, run the
property's check and record whether it reports a violation.  usage: tools/run_seeded.py [--only C01,C09-2] [--tier quick]"""
import json, os, shutil, subprocess, sys, tempfile, time
ROOT = os.path.dirname(os.path.dirname(os.path.abspath(__file__)))
only = None; tier = 'quick'
a = sys.argv[1:]
while a:
    if a[0] == '--only': only = a[1].split(','); a = a[2:]
    elif a[0] == '--tier': tier = a[1]; a = a[2:]
    else: a = a[1:]
out = os.path.join(ROOT, 'seeded', 'results.json')
res = json.load(open(out)) if os.path.exists(out) else {}
for name in sorted(os.listdir(os.path.join(ROOT, 'seeded'))):
    d = os.path.join(ROOT, 'seeded', name)
    if not os.path.isdir(d) or (only and name not in only):
        continue
    prop = name.split('-')[0]
    t0 = time.time()
    tmp = tempfile.mkdtemp(prefix='hszinc_seed_', dir=os.environ.get('TMPDIR', '/tmp'))
    rec = {'property': prop}
    try:
        dst = os.path.join(tmp, 'repo')
        shutil.copytree('/repo', dst, ignore=shutil.ignore_patterns('.git', '__pycache__', '*.pyc', '.pytest_cache'))
        p = subprocess.run(['patch', '-p1', '--fuzz=3', '-s', '-i', os.path.join(d, 'patch.diff')], cwd=dst,
                           stdout=subprocess.PIPE, stderr=subprocess.STDOUT)
        if p.returncode != 0:
            rec['status'] = 'patch does not apply to the current tree'
        else:
            env = dict(os.environ, PYTHONPATH=dst, PYTHONDONTWRITEBYTECODE='1')
            try:
                pd = subprocess.run(['/venv/bin/python', '-B', os.path.join(d, 'demo.py')], env=env, cwd=tmp, stdin=subprocess.DEVNULL,
                                    stdout=subprocess.PIPE, stderr=subprocess.STDOUT, timeout=300)
                rec['demo_rc'] = pd.returncode
            except subprocess.TimeoutExpired:
                # (C13-2: the demonstration parks a thread with sys.settrace where, since the packrat fix 5798723, it holds
                # pyparsing's lock - it deadlocks on the patched and on the clean tree alike; the check does not depend on it)
                class pd: returncode = None
                rec['demo_rc'] = 'demonstration did not finish in 300 s'
            pc = subprocess.run([os.path.join(ROOT, 'check'), prop, tier], cwd=ROOT, env=dict(os.environ, VERIF_REPO=dst),
                                stdout=subprocess.PIPE, stderr=subprocess.STDOUT)
            txt = pc.stdout.decode('utf-8', 'replace')
            rec['check_rc'] = pc.returncode
            rec['signatures'] = [l.strip()[11:] for l in txt.splitlines() if l.strip().startswith('signature:')][:4]
            rec['status'] = 'caught' if pc.returncode == 1 else ('inconclusive' if pc.returncode == 2 else 'MISSED')
            if pd.returncode == 0 and pc.returncode == 0:
                # the demonstration passes with the patch applied: on the current tree this change does not break the property
                rec['status'] = 'not a defect on the current tree (demo passes)'
    except subprocess.TimeoutExpired:
        rec['status'] = 'demo timed out'
    finally:
        shutil.rmtree(tmp, ignore_errors=True)
    rec['wall_s'] = round(time.time() - t0, 1)
    try:
        res = json.load(open(out))       # other instances may be running on other seeds
    except Exception:
        pass
    res[name] = rec
    print('%-7s %-12s demo_rc=%s  %ss' % (name, rec['status'], rec.get('demo_rc'), rec['wall_s']), flush=True)
    json.dump(res, open(out, 'w'), indent=1, sort_keys=True)
