#!/venv/bin/python
"""tools/keep_seed.py Cxx <caught-by-tier|missed> "<what I ran / note>" : copy a confirmed sub-agent seed into /verif/seeded/Cxx/"""
import json, os, shutil, sys
pid, verdict, note = sys.argv[1], sys.argv[2], sys.argv[3]
rnd = sys.argv[4] if len(sys.argv) > 4 else 'seed'
src, dst = '/tmp/%s_%s' % (rnd, pid), '/verif/seeded/' + pid + ('' if rnd == 'seed' else '-' + rnd[4:])
os.makedirs(dst, exist_ok=True)
for f in ('patch.diff', 'demo.py'):
    shutil.copy(os.path.join(src, f), os.path.join(dst, f))
meta = json.load(open(os.path.join(src, 'meta.json')))
meta['property'] = pid
meta['origin'] = 'written by an independent sub-agent that saw only the property text and its own scratch worktree'
meta['confirmed'] = ('demo exits 0 on the clean tree and 1 with the patch; repository test-suite (2830 pinned tests) passes with the patch '
                     '(tools/verify_seed.sh %s)' % pid)
meta['round'] = 1 if rnd == 'seed' else int(rnd[4:])
meta['detected_by'] = verdict
meta['what_i_ran'] = note
for k in ('check_quick.out', 'check_thorough.out'):
    p = os.path.join(src, k)
    if os.path.exists(p):
        lines = [l.rstrip()[:240] for l in open(p, errors='replace') if 'signature:' in l or l.startswith(pid)]
        meta['check_output_' + k.split('.')[0].split('_')[1]] = lines[:8]
json.dump(meta, open(os.path.join(dst, 'meta.json'), 'w'), indent=1)
print('kept', dst)
