#!/venv/bin/python
"""Run the repository's pinned test command (guard off) and compare with BASELINE.stable_pass.
usage: baseline.py [repo_dir]   -> exit 0 iff every stable_pass test passes."""
import json, os, subprocess, sys, tempfile, xml.etree.ElementTree as ET
repo = sys.argv[1] if len(sys.argv) > 1 else '/repo'
base = json.load(open('/root/.vp/BASELINE.json'))
fd, xml = tempfile.mkstemp(suffix='.xml'); os.close(fd)
env = dict(os.environ); env.pop('HSZINC_VERIF', None)
env['PYTHONDONTWRITEBYTECODE'] = '1'
p = subprocess.run(['/venv/bin/python', '-m', 'pytest', '-ra', '-q', '-p', 'no:cacheprovider', '--timeout=900',
                    '--continue-on-collection-errors', '-n', '8', '--junitxml=' + xml], cwd=repo, env=env,
                   stdout=subprocess.PIPE, stderr=subprocess.STDOUT)
passed = set()
for tc in ET.parse(xml).getroot().iter('testcase'):
    if not any(c.tag in ('failure', 'error', 'skipped') for c in tc):
        passed.add(tc.get('classname') + '::' + tc.get('name'))
os.unlink(xml)
missing = [t for t in base['stable_pass'] if t not in passed]
print('stable_pass=%d passed_now=%d missing=%d' % (len(base['stable_pass']), len(passed), len(missing)))
for t in missing[:30]:
    print('  NOT PASSING:', t)
sys.exit(1 if missing else 0)
