chk('C18', 'runtime monitoring: exhaustive pair/triple sweep of the real Version operators against a 10-line reference order',
    'Every ordered pair of 634 version strings (all six operators, string operands, hash/set/dict agreement), all triples of a 64-string core, nearest() and the version-keyed grammar caches are executed on the real class and compared with a reference order; exhaustive inside the stated universe, nothing beyond it.',
    'Trusted: the reference order in vf/props/c18.py, CPython set/dict semantics.', 'DESIGN.md 3/C18')
