"""Self-consistency of the independent JSON codec."""
import json, random, sys
sys.path.insert(0, '/verif')
from vf import domain as D, refjson as J


def main(n=3000):
    r = random.Random(6)
    g = D.Gen(r)
    bad = 0
    for i in range(n):
        ver = r.choice(['2.0', '3.0'])
        grid = g.grid(ver)
        if any(x[0] == 'dt' and x[2] % 60 for _, x in D.walk(grid, 'top')):
            continue
        if any(x[0] == 'ref' and x[2] == '' for _, x in D.walk(grid, 'top')):
            pass
        for rng in (None, r):
            w = J.Writer(rng)
            obj = json.loads(json.dumps(w.doc([grid])))
            try:
                back = J.read(obj)
            except J.RefReject as e:
                print('REJECT', e, json.dumps(obj)[:300]); bad += 1; break
            d = D.grid_diff(grid, back[0])
            if d:
                print('DIFF', d); bad += 1; break
        if bad > 5:
            break
    print('done bad=%d' % bad)
    return bad


if __name__ == '__main__':
    sys.exit(1 if main() else 0)
