"""Self-consistency of the independent ZINC codec: Writer (any spelling) -> Reader gives the denoted grid."""
import random, sys
sys.path.insert(0, '/verif')
from vf import domain as D, refzinc as Z


def usable(n, ver3):
    for _, x in D.walk(n, 'top'):
        if x[0] == 'dt' and (x[2] % 60 != 0):
            return False
        if x[0] == 'uri' and any(ord(c) < 0x20 for c in x[1]) and False:
            return False
    return True


def main(n=3000):
    r = random.Random(5)
    g = D.Gen(r)
    bad = 0
    for i in range(n):
        ver = r.choice(['2.0', '3.0'])
        grid = g.grid(ver)
        if not usable(grid, ver == '3.0'):
            continue
        for rng in (None, r):
            w = Z.Writer(rng)
            text = w.doc([grid], final_newline=r.random() < 0.8 if rng else True)
            try:
                back = Z.read(text)
            except Z.RefReject as e:
                print('REJECT', e, repr(text[max(0, e.pos - 30):e.pos + 30])); bad += 1; break
            d = D.grid_diff(grid, back[0]) if len(back) == 1 else ('', 'count', len(back))
            if d:
                print('DIFF', d, repr(text)[:300]); bad += 1; break
        if bad > 5:
            break
    print('done bad=%d' % bad)
    return bad


if __name__ == '__main__':
    sys.exit(1 if main() else 0)
