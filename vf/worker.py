import sys
from vf.core import worker_main

if __name__ == '__main__':
    worker_main(sys.argv[1:])
