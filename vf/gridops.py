"""Lock-step execution of Grid operation histories against a plain Python list (C14, C15).

Histories are JSON lists of ops; rows are referred to by pool index so that a
history is replayable.  The list model is literally `list`; the id-lookup model
is a scan over the rows currently in the list.
"""

NONDICT = 'notarow'


def make_pool(hszinc):
    """Fresh row objects for one history (rows are shared by identity inside a history)."""
    Ref = hszinc.Ref
    return [
        {'id': 'x1', 'v': 1},            # 0 str id
        {'v': 2},                        # 1 no id
        {'id': 5, 'v': 3},               # 2 int id
        {'id': Ref('r1'), 'v': 4},       # 3 Ref id
        {'id': 'x1', 'v': 5},            # 4 duplicate id of row 0, different row
        NONDICT,                         # 5 not a dict
        {'id': 'y2'},                    # 6 another str id
        {'id': Ref('r1', 'Display'), 'v': 7},   # 7 Ref id with display name
        {'id': 'l1', 'v': [1.0, 'x']},          # 8 a 3.0-only cell: an unversioned grid upgrades itself to 3.0
        {'id': 0, 'v': 9},                      # 9 falsy int id
        {'id': '', 'v': 10},                    # 10 empty-string id
        {'id': 5.0, 'v': 11},                   # 11 float id: equal to the int id 5 of row 2, but another id ('5.0' vs '5')
        {'v': 2},                               # 12 equal to row 1, another object: remove / index / count / in go by equality
        {'ref': Ref('x1'), 'v': 13},            # 13 no id, points at the plain-string id 'x1' (a filter path can follow it)
    ]


def row_kind(i):
    return {0: 'str-id', 1: 'no-id', 2: 'int-id', 3: 'ref-id', 4: 'dup-id', 5: 'non-dict', 6: 'str-id',
            7: 'refdis-id', 8: 'v3-cell', 9: 'zero-id', 10: 'empty-id', 11: 'float-id', 12: 'equal-twin', 13: 'ref-to-str-id'}[i]


def new_grid(hszinc, version=None):
    if version == 'auto+header3':
        # no version given, and it is the header (grid metadata, a column's metadata) that holds the 3.0-only values: the
        # grid is a 3.0 grid whatever happens to its rows
        return hszinc.Grid(metadata={'m': 'meta', 'tags': ['a', 'b']}, columns=[('id', []), ('v', [('unit', 'u'), ('opts', {'k': 'v'})]), ('ref', [])])
    g = hszinc.Grid(version=version, metadata={'m': 'meta'}, columns=[('id', []), ('v', [('unit', 'u')]), ('ref', [])])
    return g


def _exc(fn):
    try:
        return None, fn()
    except Exception as e:   # noqa - class is the observation
        return type(e).__name__, None


class State(object):
    def __init__(self, hszinc, version=None):
        self.hszinc = hszinc
        self.pool = make_pool(hszinc)
        self.g = new_grid(hszinc, version)
        self.l = []
        self.derived = []      # tags: after-slice / after-filter
        # grids left behind by a derivation (the parent after 'slice'/'filter', the child after 'fork'): nothing operates
        # on them any more, so what they look up must stay what it was - [(grid, rows at that time, tag)]
        self.others = []


def model_apply(l, op, pool):
    """Apply op to the list model. Returns (exception classes accepted or None, alt_states or None, new_list)."""
    t = op[0]
    if t == 'append':
        r = pool[op[1]]
        if not isinstance(r, dict):
            return {'TypeError'}, None, l
        l.append(r)
    elif t == 'insert':
        r = pool[op[2]]
        if not isinstance(r, dict):
            return {'TypeError'}, None, l
        l.insert(op[1], r)
    elif t in ('extend', 'iadd'):
        before = list(l)
        for j in op[1]:
            r = pool[j]
            if not isinstance(r, dict):
                return {'TypeError'}, [before, list(l)], l
            l.append(r)
    elif t == 'set':
        r = pool[op[2]]
        bad_index = not (-len(l) <= op[1] < len(l))
        if not isinstance(r, dict):
            return ({'TypeError', 'IndexError'} if bad_index else {'TypeError'}), None, l
        if bad_index:
            return {'IndexError'}, None, l
        l[op[1]] = r
    elif t == 'del':
        if not (-len(l) <= op[1] < len(l)):
            return {'IndexError'}, None, l
        del l[op[1]]
    elif t == 'delslice':
        del l[slice(op[1], op[2], op[3])]
    elif t == 'pop':
        if not l:
            return {'IndexError'}, None, l
        l.pop()
    elif t == 'popi':
        if not (-len(l) <= op[1] < len(l)):
            return {'IndexError'}, None, l
        l.pop(op[1])
    elif t == 'remove':
        r = pool[op[1]]
        if r not in l:
            return {'ValueError'}, None, l
        l.remove(r)
    elif t == 'reverse':
        l.reverse()
    elif t == 'clear':
        del l[:]
    elif t == 'fork':
        pass
    elif t == 'slice':
        l = l[slice(op[1], op[2])]
    elif t == 'filter':
        l = [r for r in l if op[1] in r]
    elif t == 'setid':
        # documented idiom: change a row's id in place, then reindex()
        if not (-len(l) <= op[1] < len(l)):
            return {'IndexError'}, None, l
        l[op[1]]['id'] = op[2]
    elif t in ('lookup', 'getlookup', 'reindex', 'evalfilter'):
        pass
    else:
        raise AssertionError(op)
    return None, None, l


def real_apply(st, op):
    """Apply op to the real grid; returns exception class name or None (st.g may be replaced)."""
    g, pool = st.g, st.pool
    t = op[0]
    st.rows_before = list(g)

    def run():
        if t == 'append':
            g.append(pool[op[1]])
        elif t == 'insert':
            g.insert(op[1], pool[op[2]])
        elif t == 'extend':
            g.extend(_as_form([pool[j] for j in op[1]], op[2] if len(op) > 2 else 'list'))
        elif t == 'iadd':
            gg = g
            gg += _as_form([pool[j] for j in op[1]], op[2] if len(op) > 2 else 'list')
            if gg is not g:
                raise AssertionError('+= returned another object')
        elif t == 'set':
            g[op[1]] = pool[op[2]]
        elif t == 'del':
            del g[op[1]]
        elif t == 'delslice':
            del g[slice(op[1], op[2], op[3])]
        elif t == 'pop':
            g.pop()
        elif t == 'popi':
            g.pop(op[1])
        elif t == 'remove':
            g.remove(pool[op[1]])
        elif t == 'reverse':
            g.reverse()
        elif t == 'clear':
            g.clear()
        elif t == 'slice':
            st.g = g[slice(op[1], op[2])]
            st.derived.append('after-slice')
            st.others.append((g, st.rows_before, 'parent-of-slice'))
        elif t == 'fork':
            child = g[slice(op[1], op[2])]
            st.others.append((child, st.rows_before[slice(op[1], op[2])], 'forked-slice'))
            st.derived.append('forked')
        elif t == 'filter':
            st.g = g.filter(op[1])
            st.derived.append('after-filter')
            st.others.append((g, st.rows_before, 'parent-of-filter'))
        elif t == 'setid':
            # the rows are shared with the grids left behind, which are not re-indexed: they are not judged any more
            del st.others[:]
            g[op[1]]['id'] = op[2]
            g.reindex()
        elif t == 'reindex':
            g.reindex()
        elif t == 'lookup':
            try:
                g[op[1]]
            except KeyError:
                pass
        elif t == 'getlookup':
            g.get(op[1])
        elif t == 'evalfilter':
            # evaluating a filter on the grid (result dropped): reading, as far as the grid is concerned
            g.filter(op[1])
        else:
            raise AssertionError(op)
    exc, _ = _exc(run)
    return exc


def _as_form(rows, form):
    """The argument forms a list accepts for extend / +=."""
    if form == 'list':
        return rows
    if form == 'tuple':
        return tuple(rows)
    if form == 'gen':
        return (r for r in rows)
    if form == 'iter':
        return iter(rows)
    if form == 'map':
        return map(lambda r: r, rows)
    if form == 'reversed':
        return reversed(list(reversed(rows)))
    raise AssertionError(form)


def rows_identical(a, b):
    return len(a) == len(b) and all(x is y for x, y in zip(a, b))


SLICES = [(None, None, None), (1, None, None), (None, -1, None), (0, 2, None), (None, None, 2),
          (None, None, -1), (5, 7, None), (-2, None, None), (1, 1, None)]


def observe_list(st, l, deep=True):
    """Compare every list-like view of the grid with the list. Returns [(symptom, what)]."""
    g = st.g
    out = []
    exc, n = _exc(lambda: len(g))
    if exc or n != len(l):
        return [('wrong-len', 'len(grid)=%r (%s) but list has %d' % (n, exc, len(l)))]
    exc, rows = _exc(lambda: list(g))
    if exc or not rows_identical(rows, l):
        return [('wrong-rows', 'iteration gives %r (%s), list model %r' % (rows, exc, l))]
    n = len(l)
    for i in range(-n - 1, n + 1):
        e1, v1 = _exc(lambda: g[i])
        e2, v2 = _exc(lambda: l[i])
        if e1 != e2 or (e1 is None and v1 is not v2):
            out.append(('wrong-index', 'grid[%d] -> %r/%s, list[%d] -> %r/%s' % (i, v1, e1, i, v2, e2)))
            return out
    if not deep:
        return out
    for a, b, s in SLICES:
        sl = slice(a, b, s)
        e1, sg = _exc(lambda: g[sl])
        if e1:
            out.append(('slice-raises:' + e1, 'grid[%r] raised %s' % (sl, e1)))
            return out
        if type(sg) is not type(g):
            out.append(('slice-type', 'grid[%r] is a %s' % (sl, type(sg).__name__)))
            return out
        if not rows_identical(list(sg), l[sl]):
            out.append(('wrong-slice', 'grid[%r] rows %r, list slice %r' % (sl, list(sg), l[sl])))
            return out
        if str(sg.version) != str(g.version) or list(sg.metadata.items()) != list(g.metadata.items()) or \
                list(sg.column.keys()) != list(g.column.keys()) or \
                [list(m.items()) for m in sg.column.values()] != [list(m.items()) for m in g.column.values()]:
            out.append(('slice-header', 'grid[%r] does not carry version/metadata/columns' % (sl,)))
            return out
    probes = [r for r in st.pool if isinstance(r, dict)] + [{'v': 2}, {'id': 'nope'}, NONDICT, None]
    for p in probes:
        e1, v1 = _exc(lambda: p in g)
        e2, v2 = _exc(lambda: p in l)
        if e1 != e2 or v1 != v2:
            out.append(('wrong-membership', '%r in grid -> %r/%s, in list -> %r/%s' % (p, v1, e1, v2, e2)))
            return out
        if isinstance(p, dict):
            e1, v1 = _exc(lambda: g.index(p))
            e2, v2 = _exc(lambda: l.index(p))
            if e1 != e2 or v1 != v2:
                out.append(('wrong-membership', 'grid.index(%r) -> %r/%s, list -> %r/%s' % (p, v1, e1, v2, e2)))
                return out
            e1, v1 = _exc(lambda: g.count(p))
            if e1 or v1 != l.count(p):
                out.append(('wrong-membership', 'grid.count(%r) -> %r/%s, list -> %r' % (p, v1, e1, l.count(p))))
                return out
    e1, v1 = _exc(lambda: list(reversed(g)))
    if e1 or not rows_identical(v1, list(reversed(l))):
        out.append(('wrong-rows', 'reversed(grid) -> %r/%s' % (v1, e1)))
    return out


def key_universe(hszinc):
    Ref = hszinc.Ref
    return [('x1', "'x1'"), ('y2', "'y2'"), ('5', "'5'"), ('@r1', "'@r1'"), (Ref('r1'), "Ref('r1')"),
            ('never', "'never'"), ('z9', "'z9'"), ('5.0', "'5.0'"), ('r1', "'r1'"), ('@x1', "'@x1'"), ('idx', "'idx'"),
            ('0', "'0'"), ('', "''"), ('l1', "'l1'"),
            (Ref('x1'), "Ref('x1')"), (str(Ref('r1', 'Display')), "str(Ref('r1','Display'))"),
            (Ref('r1', 'Display'), "Ref('r1','Display')")]


_DEFAULT = object()


def observe_lookup(st, l, hszinc, counter=None):
    """grid[key] / grid.get(key, D) for the key universe vs a scan of the current rows."""
    g = st.g
    out = []
    for key, label in key_universe(hszinc):
        expected = [r for r in l if isinstance(r, dict) and 'id' in r and str(r['id']) == str(key)]
        e1, v1 = _exc(lambda: g[key])
        if counter is not None:
            counter[0] += 2
        idk = id_kind(expected[0]['id']) if expected else 'none'
        if expected:
            if e1:
                out.append(('raises:' + e1, idk, 'grid[%s] raised %s but row %r is in the grid' % (label, e1, expected[0])))
            elif not any(v1 is r for r in expected):
                stale = not any(v1 is r for r in l)
                out.append(('stale-row' if stale else 'wrong-row', idk,
                            'grid[%s] returned %r which is %s; current matching rows: %r' % (
                                label, v1, 'not in the grid any more' if stale else 'a row with another id', expected)))
        else:
            if e1 is None:
                stale = not any(v1 is r for r in l)
                idk = id_kind(v1.get('id')) if isinstance(v1, dict) else 'none'
                out.append(('stale-row' if stale else 'wrong-row', idk,
                            'grid[%s] returned %r although no current row has that id' % (label, v1)))
            elif e1 != 'KeyError':
                out.append(('raises:' + e1, 'none', 'grid[%s] raised %s instead of KeyError (no row has that id)' % (label, e1)))
        e2, v2 = _exc(lambda: g.get(key, _DEFAULT))
        if e2:
            out.append(('raises:' + e2, idk, 'grid.get(%s) raised %s' % (label, e2)))
        elif expected:
            if not any(v2 is r for r in expected):
                stale = not any(v2 is r for r in l) and v2 is not _DEFAULT
                out.append(('missed-row' if v2 is _DEFAULT else ('stale-row' if stale else 'wrong-row'), idk,
                            'grid.get(%s) returned %r; current matching rows: %r' % (
                                label, 'default' if v2 is _DEFAULT else v2, expected)))
        elif v2 is not _DEFAULT:
            idk = id_kind(v2.get('id')) if isinstance(v2, dict) else 'none'
            out.append(('stale-row' if not any(v2 is r for r in l) else 'wrong-row', idk,
                        'grid.get(%s) returned %r although no current row has that id' % (label, v2)))
    return out


def id_kind(v):
    if v == 0 or v == '':
        return 'idkind=falsy'
    if isinstance(v, str):
        return 'idkind=str'
    if isinstance(v, int):
        return 'idkind=int'
    if isinstance(v, float):
        return 'idkind=float'
    return 'idkind=ref'


def history_features(st, hist, upto=None):
    f = set(st.derived)
    ops = hist if upto is None else hist[:upto + 1]
    for op in ops:
        t = op[0]
        idx = None
        if t in ('append', 'remove'):
            idx = [op[1]]
        elif t in ('insert', 'set'):
            idx = [op[2]]
        elif t in ('extend', 'iadd'):
            idx = op[1]
        for j in idx or []:
            f.add('row=' + row_kind(j))
    return f
