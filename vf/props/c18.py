"""C18 - Version numbers: total order consistent with equality, hashing, nearest()."""
import itertools
import random
import re
import warnings

PROP = 'C18'
RULE = ('exhaustive ordered pairs over version strings with <=3 numeric groups over {0,1,2,3,10} x '
        'suffix {none,a,b,rc1} (620 strings, + a few odd spellings); every pair runs all six operators, '
        'string-vs-Version operands, hash/set/dict agreement; triples for transitivity; nearest() on every '
        'string. A case is distinct per (a, b) / (a, b, c) / nearest(a); non-trivial = the two sides are '
        'different strings')
ASSUME = ['reference order: integer tuple with trailing-zero padding, then suffix (absent < any, '
          'lexicographic otherwise) - 10 lines in this file', 'CPython set/dict semantics']

NUMS = ['0', '1', '2', '3', '10']
SUFFIXES = ['', 'a', 'b', 'rc1']
EXTRA = ['02.0', '2.00', '3.0.0.0', '4.0', '2.5', '1.0', '2.0-beta', '3.0 ', '2.0A', '2.0ab', '11', '2.10',
         '2.1', '2.01']
# suffixes from the ends of the character range and the conventions of other versioning schemes (which mean nothing
# here: any suffix sorts after none, and suffixes sort as text): on a few number groups only
ODD_SUFFIXES = ['~', '~rc1', '-', '-rc1', '+b1', '_', ' ', '!', 'A', 'Z', 'z', 'aa', 'a0', 'a.1', 'a1b', u'\u00e9', u'\uffff', 'rc', 'rc10', 'rc2',
                'dev', 'post1', 'b~', '~~']
EXTRA += [g + x for g in ('2', '2.0', '3.0', '2.0.1', '10') for x in ODD_SUFFIXES]


def universe():
    out = []
    for n in (1, 2, 3):
        for groups in itertools.product(NUMS, repeat=n):
            for s in SUFFIXES:
                out.append('.'.join(groups) + s)
    return out


CORE64 = None


def core64():
    u = []
    for groups in (['2'], ['2', '0'], ['2', '0', '0'], ['2', '0', '1'], ['10', '0'], ['3'], ['3', '0'],
                   ['0'], ['0', '0', '1'], ['1', '10'], ['2', '1'], ['2', '10'], ['3', '0', '0'],
                   ['10'], ['1'], ['0', '10', '0']):
        for s in SUFFIXES:
            u.append('.'.join(groups) + s)
    # the odd suffixes next to the ordinary ones on the groups that pad to the same numbers
    for g in ('2', '2.0'):
        for x in ('~', '~rc1', '-', 'Z', 'z', '!', ' ', 'aa', 'rc10', 'rc2'):
            u.append(g + x)
    return u


_RE = re.compile(r'^(\d+(?:\.\d+)*)(.*)$', re.S)


def ref_key(s):
    m = _RE.match(s)
    nums = [int(x) for x in m.group(1).split('.')]
    while nums and nums[-1] == 0:
        nums.pop()
    return tuple(nums), m.group(2) or None


def ref_cmp(a, b):
    (na, sa), (nb, sb) = ref_key(a), ref_key(b)
    if na != nb:
        return -1 if na < nb else 1
    if sa == sb:
        return 0
    if sa is None:
        return -1
    if sb is None:
        return 1
    return -1 if sa < sb else 1


def feats(a, b):
    f = set()
    (na, sa), (nb, sb) = ref_key(a), ref_key(b)
    if a.count('.') != b.count('.'):
        f.add('padding')
    if sa or sb:
        f.add('suffix')
    if ref_cmp(a, b) == 0 and a != b:
        f.add('equal-different-spelling')
    return sorted(f)


def shards(tier, seed):
    u = universe() + EXTRA
    n = 16
    out = [{'part': 'pairs', 'lo': i, 'step': n} for i in range(n)]
    out.append({'part': 'triples', 'random': 0 if tier == 'quick' else 1000000})
    out.append({'part': 'nearest'})
    # versions are built and compared from several threads (every parse of a grid builds some): all interleavings of
    # two / three threads with up to `bound` preemptions inside hszinc/version.py
    out.append({'part': 'transport'})
    out.append({'part': 'threads', 'threads': 2, 'bound': 2 if tier == 'quick' else 3})
    out.append({'part': 'threads', 'threads': 3, 'bound': 1 if tier == 'quick' else 2})
    return out


def _law(ctx, name, a, b, what, c=None):
    case = {'a': a, 'b': b}
    if c is not None:
        case['c'] = c
    ctx.violation({'part': 'law', 'kind': 'version', 'symptom': 'law:' + name,
                   'features': feats(a, b)}, what, case)


def check_pair(ctx, Version, a, b):
    va, vb = Version(a), Version(b)
    c = ref_cmp(a, b)
    ctx.case('pair', a, b, nontrivial=(a != b))
    obs = {'lt': va < vb, 'le': va <= vb, 'eq': va == vb, 'ne': va != vb, 'ge': va >= vb, 'gt': va > vb}
    exp = {'lt': c < 0, 'le': c <= 0, 'eq': c == 0, 'ne': c != 0, 'ge': c >= 0, 'gt': c > 0}
    for op in obs:
        if obs[op] is not exp[op]:
            _law(ctx, 'order-' + op, a, b, 'Version(%r) %s Version(%r) gave %r, reference order says %r' % (
                a, op, b, obs[op], exp[op]))
    if sum([obs['lt'] is True, obs['eq'] is True, obs['gt'] is True]) != 1:
        _law(ctx, 'trichotomy', a, b, 'not exactly one of <,==,> for %r,%r: %r' % (a, b, obs))
    # strings compare like the versions they spell
    sobs = {'lt': va < b, 'le': va <= b, 'eq': va == b, 'ne': va != b, 'ge': va >= b, 'gt': va > b}
    if sobs != obs:
        _law(ctx, 'string-operand', a, b, 'Version(%r) op %r (string) = %r but op Version = %r' % (a, b, sobs, obs))
    ctx.count('operator evaluations', 12)
    if exp['eq']:
        ctx.count('equal pairs hashed')
        if hash(va) != hash(vb):
            _law(ctx, 'hash-eq', a, b, 'Version(%r) == Version(%r) but their hashes differ' % (a, b))
        if (vb in {va}) is not True or ({va: 1}.get(vb) != 1):
            _law(ctx, 'hash-eq', a, b, 'Version(%r) == Version(%r) but set/dict membership disagrees' % (a, b))
    else:
        if vb in {va}:
            _law(ctx, 'set-membership', a, b, 'Version(%r) found in {Version(%r)} though unequal' % (b, a))
    ctx.cls('pair', 'cmp=%d' % c, ','.join(feats(a, b)))


_TRANSPORT = r'''
import sys, pickle, copy, warnings, json, base64
warnings.simplefilter('ignore')
sys.path.insert(0, sys.argv[1])
from hszinc.version import Version
mode = sys.argv[2]
names = json.loads(sys.argv[3])
if mode == 'send':
    vs = [Version(n) for n in names]
    for v in vs:
        hash(v); {v: 1}; Version.nearest(v) if True else None     # used the way a program uses them before sending
    vs += [Version(v) for v in vs[:8]]                               # clones of used versions
    sys.stdout.write(base64.b64encode(pickle.dumps(vs, 2)).decode('ascii'))
else:
    vs = pickle.loads(base64.b64decode(sys.stdin.read()))
    bad = []
    for n, v in zip(names + names[:8], vs):
        w = Version(n)
        if not (v == w) or (v != w) or hash(v) != hash(w) or len({v, w}) != 1 or str(v) != str(w):
            bad.append([n, v == w, hash(v) == hash(w), len({v, w})])
    sys.stdout.write(json.dumps(bad))
'''


def transport_part(ctx):
    """Versions that have been used (hashed, looked up) are pickled in one interpreter and unpickled in another one
    whose string hashing is seeded differently (as in a worker pool or an on-disk cache): they are still the versions they
    spell - equal to, and hashing like, a version built there. In-process copies likewise."""
    import copy
    import json
    import pickle
    import subprocess
    from vf import core
    from hszinc.version import Version
    names = ['2.0', '3.0', '2', '2.0a', '3.0b', '2.0.1-rc1', '2.5', '10.0', '2.0~', '2.0 ', u'2.0\u00e9', '3', '2.0.0', '1.0', '4.0b2']
    for n in names:
        v = Version(n)
        hash(v)
        for how, c in (('copy', copy.copy(v)), ('deepcopy', copy.deepcopy(v)), ('pickle', pickle.loads(pickle.dumps(v))), ('clone', Version(v))):
            ctx.case('transport', how, n)
            ctx.count('in-process copies compared')
            w = Version(n)
            if not (c == w) or hash(c) != hash(w) or len({c, w, v}) != 1 or str(c) != str(w):
                ctx.violation({'part': 'law', 'kind': 'version', 'symptom': 'law:copy-not-equal', 'features': [how]},
                              '%s of Version(%r): == %r, hashes equal %r, set size %d' % (how, n, c == w, hash(c) == hash(w), len({c, w, v})),
                              {'a': n, 'b': n})
    env1 = dict(core.worker_env(None), PYTHONHASHSEED='1')
    env2 = dict(core.worker_env(None), PYTHONHASHSEED='2')
    p1 = subprocess.run([core.PY, '-B', '-c', _TRANSPORT, core.REPO, 'send', json.dumps(names)], env=env1, stdin=subprocess.DEVNULL,
                        stdout=subprocess.PIPE, stderr=subprocess.PIPE, timeout=300)
    p2 = subprocess.run([core.PY, '-B', '-c', _TRANSPORT, core.REPO, 'recv', json.dumps(names)], env=env2, input=p1.stdout,
                        stdout=subprocess.PIPE, stderr=subprocess.PIPE, timeout=300)
    try:
        bad = json.loads(p2.stdout.decode('utf-8'))
    except Exception:
        ctx.inconc('version transport between interpreters gave no answer: %s' % (p1.stderr + p2.stderr).decode('utf-8', 'replace')[-200:])
        return
    ctx.count('versions carried to an interpreter with another hash seed', len(names) + 8)
    for n, eq, heq, size in bad:
        ctx.violation({'part': 'law', 'kind': 'version', 'symptom': 'law:hash-eq', 'features': ['unpickled-in-another-interpreter']},
                      'Version(%r), hashed, pickled and unpickled in an interpreter with another PYTHONHASHSEED: equal to a version built '
                      'there: %r, same hash: %r, set of both has %d members' % (n, eq, heq, size), {'a': n, 'b': n, 'transport': True})
    ctx.sample({'transport': names[:5]})


def run_shard(spec, ctx):
    if spec['part'] == 'transport':
        warnings.simplefilter('ignore')
        return transport_part(ctx)
    if spec['part'] == 'threads':
        warnings.simplefilter('ignore')
        return threads_part(spec, ctx)
    return _run_shard(spec, ctx)


def _run_shard(spec, ctx):
    warnings.simplefilter('ignore')
    from hszinc.version import Version
    u = universe() + EXTRA
    if spec['part'] == 'pairs':
        for i in range(spec['lo'], len(u), spec['step']):
            a = u[i]
            for b in u:
                check_pair(ctx, Version, a, b)
        ctx.sample({'pair': [u[spec['lo']], u[-1 - spec['lo']]], 'ref_cmp': ref_cmp(u[spec['lo']], u[-1 - spec['lo']])})
    elif spec['part'] == 'triples':
        core = core64()
        vs = {s: Version(s) for s in set(core) | set(u)}

        def tri(a, b, c):
            ctx.case('triple', a, b, c, nontrivial=len({a, b, c}) == 3)
            va, vb, vc = vs[a], vs[b], vs[c]
            if va <= vb and vb <= vc and not (va <= vc):
                _law(ctx, 'transitivity', a, b, '%r <= %r <= %r but not %r <= %r' % (a, b, c, a, c), c)
            if va == vb and vb == vc and not (va == vc):
                _law(ctx, 'transitivity-eq', a, b, '%r == %r == %r but not %r == %r' % (a, b, c, a, c), c)
            if va < vb and vb < vc and not (va < vc):
                _law(ctx, 'transitivity', a, b, '%r < %r < %r but not %r < %r' % (a, b, c, a, c), c)
        for a in core:
            for b in core:
                for c in core:
                    tri(a, b, c)
        ctx.count('triples (core, exhaustive)', len(core) ** 3)
        r = random.Random(ctx.seed * 1000003 + 77)
        for _ in range(spec['random']):
            tri(r.choice(u), r.choice(u), r.choice(u))
        ctx.count('triples (random over full universe)', spec['random'])
        ctx.sample({'triple': core[:3]})
        # the documented chain
        chain = ['2', '2.0', '2.0.0', '2.0a', '2.0b', '2.0.1', '10.0']
        exp = [0, 0, -1, -1, -1, -1]
        for (x, y), e in zip(zip(chain, chain[1:]), exp):
            vx, vy = Version(x), Version(y)
            got = 0 if vx == vy else (-1 if vx < vy else 1)
            ctx.case('chain', x, y)
            if got != e:
                _law(ctx, 'documented-chain', x, y, 'documented 2 == 2.0 == 2.0.0 < 2.0a < 2.0b < 2.0.1 < 10.0 '
                     'violated between %r and %r' % (x, y))
    elif spec['part'] == 'nearest':
        from hszinc import version as V
        from hszinc import zincparser
        official = sorted(str(v) for v in V.OFFICIAL_VERSIONS)
        res = {}
        for s in u:
            ctx.case('nearest', s)
            n = Version.nearest(s)
            ctx.count('nearest() calls')
            res[s] = n
            # "official" is judged by equality under the reference order (Version('2') is 2.0)
            if not any(ref_cmp(str(n), o) == 0 for o in official):
                _law(ctx, 'nearest-official', s, s, 'nearest(%r) = %r is not an official version' % (s, str(n)))
            eqs = [o for o in official if ref_cmp(o, s) == 0]
            if eqs and ref_cmp(str(n), s) != 0:
                _law(ctx, 'nearest-equal', s, eqs[0], 'nearest(%r) = %r although official %r is equal' % (
                    s, str(n), eqs[0]))
            # Version instance argument must agree with string argument
            n2 = Version.nearest(Version(s))
            if ref_cmp(str(n2), str(n)) != 0:
                _law(ctx, 'nearest-arg-form', s, s, 'nearest(Version(%r)) != nearest(%r)' % (s, s))
            # grammar cache keyed by version picks the grammar of the nearest official version
            g = zincparser.hs_scalar[Version(s)]
            gn = zincparser.hs_scalar[n]
            ctx.count('grammar cache lookups', 2)
            if g is not gn:
                _law(ctx, 'grammar-cache', s, str(n), 'scalar grammar for %r is not that of nearest %r' % (s, str(n)))
            g = zincparser.hs_grid[Version(s)]
            if g is not zincparser.hs_grid[n]:
                _law(ctx, 'grammar-cache', s, str(n), 'grid grammar for %r is not that of nearest %r' % (s, str(n)))
        for a in u:
            for b in u:
                if ref_cmp(a, b) <= 0 and ref_cmp(str(res[a]), str(res[b])) > 0:
                    _law(ctx, 'nearest-monotone', a, b, 'nearest(%r)=%s > nearest(%r)=%s though %r <= %r' % (
                        a, res[a], b, res[b], a, b))
        ctx.count('monotonicity pairs', len(u) ** 2)
        ctx.sample({'nearest': {s: str(res[s]) for s in ['1.0', '2', '2.0.0', '2.0a', '2.5', '3.0.0', '4.0', '10.1.0rc1']}})


THREAD_JOBS = [('3.0', '2.0'), ('2.0', '3.0'), ('2.0a', '2.0'), ('3', '3.0.0'), ('2.5', '10.0')]


def version_codes():
    """Code objects of hszinc/version.py (methods and module-level functions): the places a thread can be pre-empted."""
    import types
    from hszinc import version as V
    codes, names = [], []

    def walk(code):
        if code.co_filename.endswith('version.py') and id(code) not in [id(c) for c in codes]:
            codes.append(code)
            names.append(code.co_name)
            for c in code.co_consts:
                if isinstance(c, types.CodeType):
                    walk(c)
    for obj in list(vars(V).values()):
        if isinstance(obj, types.FunctionType):
            walk(obj.__code__)
        elif isinstance(obj, type) and obj.__module__ == V.__name__:
            for m in vars(obj).values():
                f = getattr(m, '__func__', m)
                if isinstance(f, types.FunctionType):
                    walk(f.__code__)
    return codes, names


def _job(Version, a, b):
    """What one thread does: build two versions from strings, compare them every way, look up the nearest official one."""
    va, vb = Version(a), Version(b)
    return (str(va), str(vb), va < vb, va == vb, va > vb, va <= vb, va >= vb, va != vb, hash(va) == hash(Version(a)),
            va == a, vb == b, str(Version.nearest(va)))


def threads_part(spec, ctx, overrides=None):
    from hszinc.version import Version
    from vf import sched
    codes, names = version_codes()
    if len(codes) < 3:
        ctx.inconc('fewer than 3 functions of hszinc/version.py could be instrumented')
        return
    sched.install(codes)
    k = spec['threads']
    jobs = [THREAD_JOBS[i % len(THREAD_JOBS)] for i in range(k)]
    # single-threaded answers first (the property's other parts check them against the reference order)
    expected = [_job(Version, a, b) for a, b in jobs]

    def make_ops():
        return [lambda a=a, b=b: _job(Version, a, b) for a, b in jobs]

    def check(results, s, ov):
        ctx.case('schedule', k, tuple(ov))
        ctx.count('schedules executed')
        if s.failed:
            ctx.count('schedules with a scheduling problem (not judged): ' + s.failed.split(' at ')[0])
            return
        for t, res in enumerate(results):
            if res is None:
                continue
            if res[0] == 'raise' or res[1] != expected[t]:
                ctx.violation({'part': 'schedule', 'kind': 'version', 'symptom': 'differs-from-single-threaded' if res[0] != 'raise' else 'raises:' + res[1],
                               'features': ['threads=%d' % k, 'preemptions=%d' % len(ov)]},
                              'thread %d working on %r got %r, alone it gets %r [schedule %r]' % (t, jobs[t], res[1:], expected[t], list(ov)),
                              {'threads': k, 'overrides': [list(x) for x in ov]})
        # and nothing is left behind: the same jobs give the same answers afterwards
        for t, (a, b) in enumerate(jobs):
            now = _job(Version, a, b)
            if now != expected[t]:
                ctx.violation({'part': 'schedule', 'kind': 'version', 'symptom': 'differs-afterwards', 'features': ['threads=%d' % k]},
                              'after schedule %r, %r gives %r (before: %r)' % (list(ov), (a, b), now, expected[t]),
                              {'threads': k, 'overrides': [list(x) for x in ov]})
                break
    if overrides is not None:
        results, s = sched.run_schedule(codes, make_ops(), overrides)
        check(results, s, overrides)
        return
    stats = sched.explore(codes, make_ops, check, spec['bound'], max_schedules=3000 if ctx.tier == 'quick' else 60000,
                          max_seconds=None if ctx.tier == 'quick' else 1200)
    ctx.count('distinct interleavings (trace fingerprints)', len(stats['fingerprints']))
    ctx.count('single-preemption schedules executed', stats['by_preemptions'].get(1, 0))
    ctx.note('threads=%d bound=%d: %d schedules (by number of preemptions %r, %d left unexplored by the cap), %d distinct interleavings, up to '
             '%d decision points; instrumented: %s' % (k, spec['bound'], stats['schedules'], stats['by_preemptions'], stats['left_unexplored'],
                                                      len(stats['fingerprints']), stats['max_decisions'], ','.join(names)))
    ctx.cls('schedules', 'threads=%d' % k, 'bound=%d' % spec['bound'])
    ctx.sample({'threads': k, 'jobs': jobs, 'schedules': stats['schedules'], 'distinct_interleavings': len(stats['fingerprints']),
                'instrumented_functions': names})


def replay(case, ctx):
    warnings.simplefilter('ignore')
    if case.get('transport'):
        return transport_part(ctx)
    if 'overrides' in case:
        threads_part({'threads': case['threads'], 'bound': 0}, ctx, [tuple(x) for x in case['overrides']])
        return
    from hszinc.version import Version
    check_pair(ctx, Version, case['a'], case['b'])
    check_pair(ctx, Version, case['b'], case['a'])


def finish(ctx, merged):
    n = len(universe() + EXTRA)
    want = n * n
    got = sum(1 for _ in [0]) and merged['counters'].get('operator evaluations', 0) // 12
    merged['exhaustive'] = (got == want)
    if got != want:
        ctx.inconclusive.append('pair sweep incomplete: %d of %d' % (got, want))
    if merged['counters'].get('equal pairs hashed', 0) == 0:
        ctx.inconclusive.append('no equal pair was hashed')
    if merged['counters'].get('versions carried to an interpreter with another hash seed', 0) == 0:
        ctx.inconclusive.append('the transport part did not run')
    if merged['counters'].get('single-preemption schedules executed', 0) < 20:
        ctx.inconclusive.append('thread schedules: fewer than 20 single-preemption schedules ran')
    if merged['counters'].get('nearest() calls', 0) < n:
        ctx.inconclusive.append('nearest() sweep incomplete')
