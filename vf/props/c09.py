"""C09 - malformed ZINC raises ZincParseException: never mis-parsed, never a crash."""
import faulthandler
import mmap
import os
import random
import subprocess
import sys
import time

from vf import core
from vf import domain as D
from vf import hs
from vf import refzinc

PROP = 'C09'
LEVEL = 'fault_enumeration'
RULE = ('(1) exhaustive single mutations of small well-formed documents (delete each character, insert / replace with each '
        'of 24 interesting characters at every offset, truncate at every offset, splice two documents at line boundaries), '
        'pairs of random mutations and random strings over the ZINC alphabet are fed to the real hszinc.parse; the only '
        'exception allowed is ZincParseException with (line, col) = (0, 0) or inside its text; every call is metered with a '
        'sys.monitoring PY_START counter (logical step budget, 2e6 function entries per KiB); when both hszinc and the '
        'independent strict reader accept a mutated document the two grids are compared (mis-parse detector); (2) documents '
        'broken by construction in the ways the property lists (and confirmed broken by the independent reader) must be '
        'rejected; (3) parse_scalar on mutated scalars may only raise ValueError-family exceptions. distinct = input text; '
        'non-trivial = every mutated / random input')
ASSUME = ['the independent reader decides "certainly broken"; a constructed document it does not reject is discarded and counted',
          'date-time values are masked in the both-accept comparison (unknown zone names are handled differently by design)',
          'wall-clock only as an outer watchdog: the step meter cannot see time spent inside one C-level call (a regular '
          'expression that backtracks without end), so every worker arms a faulthandler watchdog (%d s without moving on to '
          'the next input; an input normally takes milliseconds) that ends the worker and leaves the input behind; the parent '
          're-runs that input alone with a %d s limit and reports it only if it still does not return' % (90, 240)]
WATCHDOG_S = 90
CONFIRM_S = 240
HB_DIR = os.path.join(core.ROOT, '.work', 'c09_watch')


class Heartbeat(object):
    """The input being parsed, kept in a memory-mapped file, and a faulthandler watchdog (a C thread, it does not need
    the GIL) that ends this worker when no new input has been started for WATCHDOG_S seconds."""

    def __init__(self, idx):
        os.makedirs(HB_DIR, exist_ok=True)
        self.path = os.path.join(HB_DIR, 'hb_%d_%d' % (os.getppid(), idx))
        self.f = open(self.path, 'w+b')
        self.f.truncate(1 << 17)
        self.mm = mmap.mmap(self.f.fileno(), 1 << 17)
        self.tb = open(self.path + '.tb', 'w')
        self.last = 0.0
        self.max_wall = 0.0
        self.t_in = time.monotonic()

    def beat(self, kind, payload):
        now = time.monotonic()
        self.max_wall = max(self.max_wall, now - self.t_in)
        self.t_in = now
        b = (kind + '\n' + payload).encode('utf-8', 'surrogatepass')[:(1 << 17) - 8]
        self.mm[0:4] = len(b).to_bytes(4, 'little')
        self.mm[4:4 + len(b)] = b
        if now - self.last > 1.0:
            faulthandler.dump_traceback_later(WATCHDOG_S, file=self.tb, exit=True)
            self.last = now

    def done(self):
        faulthandler.cancel_dump_traceback_later()
        self.mm.close()
        self.f.close()
        self.tb.close()
        for q in (self.path, self.path + '.tb'):
            try:
                os.unlink(q)
            except OSError:
                pass


_hb = [None]


def beat(kind, payload):
    if _hb[0] is not None:
        _hb[0].beat(kind, payload)


_CONFIRM = r'''
import sys, warnings
warnings.simplefilter('ignore')
sys.path.insert(0, sys.argv[1])
import hszinc
kind, _, payload = open(sys.argv[2], 'rb').read().decode('utf-8', 'surrogatepass').partition('\n')
class Sink(object):
    def write(self, s): pass
    def flush(self): pass
sys.stdout = Sink()
try:
    if kind == 'text':
        hszinc.parse(payload, mode=hszinc.MODE_ZINC, single=False)
    elif kind.startswith('bytes:'):
        hszinc.parse(bytes.fromhex(payload), mode=hszinc.MODE_ZINC, charset=kind[6:], single=False)
    else:
        hszinc.parse_scalar(payload, mode=hszinc.MODE_ZINC, version=kind[7:])
except BaseException:
    pass
'''


def confirm_hang(kind, payload, limit=CONFIRM_S):
    """Re-run one input alone in a fresh interpreter. Returns seconds taken, or None when it did not return in time."""
    os.makedirs(HB_DIR, exist_ok=True)
    path = os.path.join(HB_DIR, 'confirm_%d' % os.getpid())
    with open(path, 'wb') as f:
        f.write((kind + '\n' + payload).encode('utf-8', 'surrogatepass'))
    t0 = time.time()
    try:
        subprocess.run([core.PY, '-B', '-c', _CONFIRM, core.REPO, path], timeout=limit, stdin=subprocess.DEVNULL,
                       stdout=subprocess.DEVNULL, stderr=subprocess.DEVNULL, env=core.worker_env(None))
        return time.time() - t0
    except subprocess.TimeoutExpired:
        return None
    finally:
        try:
            os.unlink(path)
        except OSError:
            pass


INTERESTING = ['"', '\\', '`', ',', '\n', '\r', ' ', ':', '@', '[', ']', '{', '}', '<', '>', '(', ')', 'N', 'T', '-', '0', '.', 'e',
               u'\u00e9']
ALPHABET = list('abcNMRTF019 ,:"\\`@[]{}<>()-._+eEZ/$%\n\r\t') + [u'\u00e9', u'\U0001f600', 'ver:"3.0"', 'ver:"2.0"', '\n\n', 'C(', 'Bin(',
                                                                  'INF', 'NaN', 'NA', '2020-01-01', 'T12:00:00', 'Z UTC', '<<', '>>']
BUDGET_PER_KIB = 2000000
# Reason codes of the independent reader that are raised *inside* a string / URI literal it has already entered, so
# they cannot be an artefact of the two readers framing the surrounding syntax differently.  (The other listed categories
# are judged only on the documents broken by construction: for arbitrary mutants the strict reader's reason code can
# be a leniency of hszinc outside the listed categories - a blank after '<<', a trailing blank on the header line,
# 'ver:"2.9"' selecting the 3.0 grammar - and judging those would raise false alarms.)
CERTAIN = {'illegal-string-escape', 'illegal-uri-escape', 'bad-unicode-escape'}

_steps = [0]
_limit = [float('inf')]
_overrun = [False]
_tool = None


class StepBudgetExceeded(BaseException):
    """Raised from the PY_START callback into a parse that has used up its logical step budget, so that a parse which
    would not terminate in practice is cut short and *reported* instead of hitting the wall-clock watchdog."""


def meter_on():
    global _tool
    if _tool is not None:
        return
    mon = sys.monitoring
    _tool = 3
    try:
        mon.use_tool_id(_tool, 'vf-c09')
    except ValueError:
        pass

    def on_start(code, offset):
        _steps[0] += 1
        if _steps[0] > _limit[0]:
            _overrun[0] = True
            _limit[0] = float('inf')        # let the unwinding code run
            raise StepBudgetExceeded()
    mon.register_callback(_tool, mon.events.PY_START, on_start)
    mon.set_events(_tool, mon.events.PY_START)


def corpus(seed, n):
    """Small well-formed documents (canonical spelling of the independent writer)."""
    r = random.Random(seed)
    gen = D.Gen(r)
    gen.zoneless = 0.2
    docs = []
    tries = 0
    while len(docs) < n and tries < n * 50:
        tries += 1
        ver = r.choice(['2.0', '3.0', '3.0'])
        g = gen.grid(ver, small=True, maxcols=3, maxrows=3)
        ok = True
        for _, x in D.walk(g, 'top'):
            if x[0] == 'dt' and x[2] % 60:
                ok = False
            if x[0] == 'num' and x[2] is not None and isinstance(x[1], float) and (x[1] != x[1] or abs(x[1]) == float('inf')):
                ok = False
        if not ok:
            continue
        text = refzinc.Writer(None).doc([g])
        if 30 <= len(text) <= 220:
            docs.append((g, text))
    return docs


def within(exc, fallback_text):
    line, col = getattr(exc, 'line', None), getattr(exc, 'col', None)
    text = getattr(exc, 'grid_str', None)
    if not isinstance(text, str):
        text = fallback_text
    if (line, col) == (0, 0):
        return 'unknown(0,0)', True
    if not isinstance(line, int) or not isinstance(col, int):
        return 'non-integer', False
    lines = text.split('\n')
    if not (1 <= line <= len(lines) + 1):
        return 'line-out-of-text', False
    width = len(lines[line - 1]) if line <= len(lines) else 0
    if not (1 <= col <= width + 1):
        return 'col-out-of-line', False
    return 'inside', True


def mask_dt(n):
    k = n[0]
    if k == 'dt':
        return ('dt-masked',)
    if k == 'list':
        return ('list', tuple(mask_dt(x) for x in n[1]))
    if k == 'dict':
        return ('dict', tuple((a, mask_dt(x)) for a, x in n[1]))
    if k == 'grid':
        # version strings are normalised by hszinc ('2.' -> '2.0'): not compared here (C18 / C07 look at versions)
        return ('grid', None, tuple((a, mask_dt(x)) for a, x in n[2]),
                tuple((c, tuple((a, mask_dt(x)) for a, x in m)) for c, m in n[3]),
                tuple(tuple((c, mask_dt(x)) for c, x in row) for row in n[4]))
    return n


def _diff_masked(a, b):
    try:
        return D.grid_diff(mask_dt(a), mask_dt(b), False)
    except AssertionError:
        return None


class Judge(object):
    def __init__(self, ctx, hszinc):
        self.ctx = ctx
        self.hszinc = hszinc
        self.ZPE = hszinc.zincparser.ZincParseException
        self.max_steps = 0

    def feed(self, text, how, base=None):
        """One input through hszinc.parse; returns 'parsed' | 'rejected'."""
        ctx, hszinc = self.ctx, self.hszinc
        ctx.case(text)
        ctx.count('inputs')
        beat('text', text)
        _steps[0] = 0
        _overrun[0] = False
        budget = BUDGET_PER_KIB * (1 + len(text) // 1024)
        _limit[0] = budget
        outcome = None
        try:
            res = hszinc.parse(text, mode=hs.ZINC, single=False)
            outcome = 'parsed'
        except self.ZPE as e:
            outcome = 'rejected'
            where, ok = within(e, text)
            ctx.count('ZincParseException position: ' + where)
            if not ok:
                ctx.violation({'part': 'mutation', 'format': 'zinc', 'kind': 'exception-position', 'symptom': 'position:' + where,
                               'features': ['how=' + how]},
                              'ZincParseException line=%r col=%r is not inside its text %r' % (
                                  getattr(e, 'line', None), getattr(e, 'col', None), (getattr(e, 'grid_str', None) or text)[:120]),
                              {'text': D._enc_s(text)})
            if not isinstance(e, ValueError):
                ctx.violation({'part': 'mutation', 'format': 'zinc', 'kind': 'exception-type', 'symptom': 'not-a-ValueError', 'features': []},
                              'ZincParseException is not a ValueError', {'text': D._enc_s(text)})
            cause = type(e.__context__).__name__ if e.__context__ is not None else 'none'
            ctx.cls('converted-from', cause)
        except StepBudgetExceeded:
            outcome = 'rejected'
        except BaseException as e:    # noqa - anything else escaping is the violation
            outcome = 'crash'
            ctx.violation({'part': 'mutation', 'format': 'zinc', 'kind': 'exception-type', 'symptom': 'escaped:' + type(e).__name__,
                           'features': ['how=' + how]},
                          'parse() let %s escape: %s | input %r' % (type(e).__name__, str(e)[:120], text[:200]),
                          {'text': D._enc_s(text)})
        _limit[0] = float('inf')
        steps = _steps[0]
        self.max_steps = max(self.max_steps, steps)
        if outcome in ('parsed', 'rejected') and not _overrun[0] and ('\n\n' in text or '\n\r\n' in text):
            # (only documents that can hold several grids are concerned)
            # the default single=True returns the first grid only, but the whole document must still be well-formed:
            # acceptance may not depend on the flag
            try:
                hszinc.parse(text, mode=hs.ZINC, single=True)
                o1 = 'parsed'
            except self.ZPE:
                o1 = 'rejected'
            except BaseException as e:    # noqa
                o1 = 'crash:' + type(e).__name__
            ctx.count('single=True / single=False acceptance compared')
            if o1 != outcome:
                ctx.violation({'part': 'mutation', 'format': 'zinc', 'kind': 'single-flag', 'symptom': 'acceptance-depends-on-single:' + o1,
                               'features': ['how=' + how.split(':')[0]]},
                              'single=False: %s, single=True: %s for %r' % (outcome, o1, text[:250]), {'text': D._enc_s(text)})
        if steps > budget or _overrun[0]:
            ctx.violation({'part': 'mutation', 'format': 'zinc', 'kind': 'termination', 'symptom': 'step-budget-overrun', 'features': ['how=' + how]},
                          '%d function entries for %d characters (budget %d)' % (steps, len(text), budget), {'text': D._enc_s(text)})
        ctx.count('outcome: ' + outcome)
        if outcome == 'parsed':
            # mis-parse detector: the independent strict reader accepts too => same grids
            try:
                ref = refzinc.read(text)
            except refzinc.RefReject as e:
                if e.code in CERTAIN:
                    # the strict reader rejects it for one of the reasons the property lists: hszinc must reject it too
                    ctx.count('mutant broken in a listed way: ' + e.code)
                    ctx.violation({'part': 'broken', 'format': 'zinc', 'kind': e.code, 'symptom': 'accepted-broken', 'features': ['how=' + how]},
                                  'document broken in a listed way (%s at offset %d) was accepted: %r' % (e.code, e.pos, text[:250]),
                                  {'text': D._enc_s(text), 'category': e.code})
                else:
                    ctx.count('accepted by hszinc only (leniency, not judged)')
                return outcome
            except Exception:
                return outcome
            ctx.count('accepted by both readers (grids compared)')
            try:
                got = [hs.from_grid(g) for g in res]
            except Exception as e:
                ctx.violation({'part': 'mutation', 'format': 'zinc', 'kind': 'result', 'symptom': 'result-unreadable:' + type(e).__name__,
                               'features': []}, 'parsed grid cannot be traversed: %r' % (e,), {'text': D._enc_s(text)})
                return outcome
            d = None
            if len(got) != len(ref):
                d = ('', 'shape-changed', '%d grids vs %d' % (len(got), len(ref)))
            else:
                for a, b in zip(ref, got):
                    d = _diff_masked(a, b)
                    if d:
                        break
            if d:
                ctx.violation({'part': 'mutation', 'format': 'zinc', 'kind': 'mis-parse', 'symptom': 'differs-from-independent-reader:' + d[1].split(':')[0],
                               'features': ['how=' + how]},
                              'both readers accept %r but disagree: %s: %s' % (text[:200], d[0], d[2]), {'text': D._enc_s(text)})
        return outcome

    def feed_bytes(self, data, how, charset='utf-8'):
        """The same document as bytes: the decoded text decides; undecodable bytes may only give a ValueError-family
        error (UnicodeDecodeError is one)."""
        ctx, hszinc = self.ctx, self.hszinc
        ctx.case('bytes', charset, data.hex())
        ctx.count('byte inputs')
        beat('bytes:' + charset, data.hex())
        try:
            text = data.decode(charset)
        except UnicodeDecodeError:
            text = None
        try:
            hszinc.parse(data, mode=hs.ZINC, charset=charset, single=False)
            out = 'parsed'
        except self.ZPE:
            out = 'rejected'
        except UnicodeDecodeError:
            out = 'undecodable'
        except BaseException as e:   # noqa
            out = 'crash'
            ctx.violation({'part': 'mutation', 'format': 'zinc', 'kind': 'exception-type', 'symptom': 'escaped:' + type(e).__name__,
                           'features': ['how=' + how, 'input=bytes']},
                          'parse(bytes) let %s escape: %s | input %r' % (type(e).__name__, str(e)[:120], data[:200]),
                          {'bytes': data.hex(), 'charset': charset})
        ctx.count('byte outcome: ' + out)
        if out == 'crash':
            return
        if text is None:
            if out != 'undecodable':
                ctx.violation({'part': 'mutation', 'format': 'zinc', 'kind': 'bytes', 'symptom': 'undecodable-bytes-' + out,
                               'features': ['how=' + how]}, 'bytes that are not %s were %s: %r' % (charset, out, data[:120]),
                              {'bytes': data.hex(), 'charset': charset})
            return
        try:
            hszinc.parse(text, mode=hs.ZINC, single=False)
            ref = 'parsed'
        except self.ZPE:
            ref = 'rejected'
        except BaseException:   # noqa - reported by feed() on the text route
            return
        if ref != out:
            ctx.violation({'part': 'mutation', 'format': 'zinc', 'kind': 'bytes', 'symptom': 'bytes-vs-text:' + out + '-vs-' + ref,
                           'features': ['how=' + how]}, 'as bytes (%s) %s, as text %s: %r' % (charset, out, ref, text[:160]),
                          {'bytes': data.hex(), 'charset': charset})

    def must_reject(self, text, category):
        ctx, hszinc = self.ctx, self.hszinc
        try:
            refzinc.read(text)
            ctx.count('constructed but not certainly broken (discarded): ' + category)
            return
        except refzinc.RefReject as e:
            ctx.cls('broken', category, e.code)
        except Exception:
            return
        ctx.case('broken', category, text)
        ctx.count('broken-by-construction: ' + category)
        out = self.feed(text, 'broken:' + category)
        if out == 'parsed':
            ctx.violation({'part': 'broken', 'format': 'zinc', 'kind': category, 'symptom': 'accepted-broken', 'features': []},
                          'structurally broken document (%s) was accepted: %r' % (category, text[:250]), {'text': D._enc_s(text), 'category': category})


MARK = ('grid', None, (('mk', ('str', 'MARK')),), (('cx', (('cm', ('uri', 'MARK')),)), ('cy', ())),
        ((('cx', ('str', 'MARK')), ('cy', ('uri', 'MARK'))),))


def broken_docs(r):
    """(category, text) documents broken exactly in the listed ways."""
    W = refzinc.Writer(None)
    out = []
    for ver in ('2.0', '3.0'):
        g = ('grid', ver) + MARK[2:]
        text = W.doc([g])
        lines = text.split('\n')
        out.append(('header-removed', '\n'.join(lines[1:])))
        for bad in ('vre:"%s"' % ver, 'Ver:"%s"' % ver, 'ver="%s"' % ver, 'ver:%s' % ver, 'ver: "%s"' % ver, 'version:"%s"' % ver, '"%s"' % ver):
            out.append(('ver-misspelt', text.replace('ver:"%s"' % ver, bad, 1)))
        for badv in ('abc', '', 'x.y', '.5', 'v3'):
            out.append(('version-not-a-version', text.replace('ver:"%s"' % ver, 'ver:"%s"' % badv, 1)))
        i = text.rfind('"')
        out.append(('unterminated-string', text[:i] + text[i + 1:]))
        i = text.rfind('`')
        out.append(('unterminated-uri', text[:i] + text[i + 1:]))
        only_str = W.doc([('grid', ver, (), (('a', ()),), ((('a', ('str', 'MARK')),),))])
        i = only_str.rfind('"')
        out.append(('unterminated-string', only_str[:i] + only_str[i + 1:]))
        out.append(('unterminated-string', only_str[:i] + only_str[i + 1:].rstrip('\n')))
        for esc in ('\\q', '\\x41', "\\'", '\\u12', '\\u12G4', '\\ ', '\\0', '\\a', '\\`', '\\N', '\\T', '\\B', '\\F', '\\R',
                    '\\:', '\\/', '\\#', '\\@', '\\&', '\\e', '\\v', '\\,'):
            out.append(('illegal-string-escape', text.replace('"MARK"', '"MA%sRK"' % esc, 1)))
            out.append(('illegal-string-escape', only_str.replace('"MARK"', '"MA%sRK"' % esc, 1)))
        for esc in ('\\q', '\\x41', '\\"', '\\u12', '\\ ', '\\$', '\\0', '\\N', '\\T', '\\B', '\\F', '\\R', '\\e', '\\,', '\\<'):
            out.append(('illegal-uri-escape', text.replace('`MARK`', '`MA%sRK`' % esc, 1)))
        # (names with a letter or digit outside ASCII after a legal first letter: a regex written with \w takes them)
        for badname in ('Mk', '9k', '_k', 'MK', '-k', u'si\u00e8ge', u'gr\u00f6\u00dfe', u't\u00b2', u'c\u0663', u'a\u00e9', u'k\u0416', u'n\uff11',
                        u'x\u00aa'):
            out.append(('illegal-tag-name', text.replace(' mk:', ' %s:' % badname, 1)))
            out.append(('illegal-tag-name', text.replace('cx cm:', 'cx %s:' % badname, 1)))
            out.append(('illegal-column-name', text.replace('\ncx ', '\n%s ' % badname, 1)))
            out.append(('illegal-column-name', text.replace(',cy\n', ',%s\n' % badname, 1)))
    # brackets (3.0)
    for val, closer in ((('list', (('num', 1, None), ('num', 2, None))), ']'),
                        (('dict', (('a', ('num', 1, None)),)), '}'),
                        (('grid', '3.0', (), (('i', ()),), ((('i', ('num', 1, None)),),)), '>>'),
                        (('list', (('list', (('num', 1, None),)),)), ']'),
                        (('dict', (('a', ('list', (('num', 1, None),))),)), '}')):
        g = ('grid', '3.0', (), (('a', ()), ('b', ())), ((('a', val), ('b', ('num', 7, None))),))
        text = W.doc([g])
        i = text.rfind(closer)
        out.append(('unbalanced-brackets', text[:i] + text[i + len(closer):]))
        for opener in ('[', '{', '<<'):
            j = text.index('\n', text.index('\n') + 1) + 1
            out.append(('unbalanced-brackets', text[:j] + opener + text[j:]))
        i = text.rfind(closer)
        out.append(('unbalanced-brackets', text[:i] + closer + text[i:]))
    # names of extended-string types and dict keys are names too
    for bad in (u'Typ\u00e9("x")', u'T\u00b2("x")', u'\u00c9t("x")', u'X\u0663("x")'):
        out.append(('illegal-tag-name', 'ver:"3.0"\na\n%s\n' % bad))
    for bad in (u'{si\u00e8ge:1}', u'{k\u00e9}', u'{a:1 b\u00b2:2}'):
        out.append(('illegal-tag-name', 'ver:"3.0"\na\n%s\n' % bad))
    # 3.0-only constructs under ver 2.0
    for t in ('NA', '[1,2]', '[]', '{a:1}', '{}', '{a}', 'Type("x")', 'hex("00")', '<<ver:"3.0"\ni\n1\n>>', '<<ver:"2.0"\ni\n1\n>>', '[NA]'):
        out.append(('v3-construct-under-2.0', 'ver:"2.0"\na,b\n%s,1\n' % t))
        out.append(('v3-construct-under-2.0', 'ver:"2.0" mv:%s\na\n1\n' % t))
        out.append(('v3-construct-under-2.0', 'ver:"2.0"\na cv:%s,b\n1,2\n' % t))
        out.append(('v3-construct-under-2.0', 'ver:"2.0"\na\n1\n\nver:"2.0"\na\n%s\n' % t))
    return out


def shards(tier, seed):
    ndocs = 16 if tier == 'quick' else 160
    k = 16 if tier == 'quick' else 40
    out = [{'part': 'mutations', 'ndocs': ndocs, 'slice': [i, k]} for i in range(k)]
    out.append({'part': 'broken'})
    out.append({'part': 'random', 'n': 6000 if tier == 'quick' else 400000 // 8, 'sub': 0})
    if tier != 'quick':
        out += [{'part': 'random', 'n': 400000 // 8, 'sub': j} for j in range(1, 8)]
    ns = 8 if tier == 'quick' else 16
    out += [{'part': 'scalars', 'n': 1 if tier == 'quick' else 4, 'slice': [j, ns]} for j in range(ns)]
    return out


def run_shard(spec, ctx):
    _hb[0] = Heartbeat(ctx.shard)
    try:
        _run_shard(spec, ctx)
        ctx.note('longest wall time between two inputs in shard %d: %.2f s' % (ctx.shard, _hb[0].max_wall))
        ctx.count('watchdog armed shards')
    finally:
        _hb[0].done()
        _hb[0] = None


def _run_shard(spec, ctx):
    import hszinc
    meter_on()
    J = Judge(ctx, hszinc)
    if spec['part'] == 'mutations':
        docs = corpus(ctx.seed * 1000003 + 909, spec['ndocs'])
        i, k = spec['slice']
        r = random.Random(ctx.seed * 1000003 + 910 + i)
        for di, (g, text) in enumerate(docs):
            # every shard takes the offsets pos % k == i of every document (even load whatever a document costs)
            part, parts = i, k
            if J.feed(text, 'unmutated') != 'parsed':
                ctx.count('corpus document not accepted (skipped)')
                continue
            if i == 0:
                ctx.count('corpus documents')
            n = len(text)
            for pos in range(n + 1):
                if pos % parts != part:
                    continue
                if pos < n:
                    J.feed(text[:pos] + text[pos + 1:], 'delete')
                    J.feed(text[:pos], 'truncate')
                for ch in INTERESTING:
                    J.feed(text[:pos] + ch + text[pos:], 'insert')
                    if pos < n and text[pos] != ch:
                        J.feed(text[:pos] + ch + text[pos + 1:], 'replace')
            # splice with another corpus document at line boundaries
            other = docs[(di + 1) % len(docs)][1]
            la, lb = text.split('\n'), other.split('\n')
            for a in range(len(la)):
                for b in range(len(lb)):
                    if (a + b) % parts == part:
                        J.feed('\n'.join(la[:a] + lb[b:]), 'splice')
            for _ in range(max(1, 300 // parts)):
                t = text
                for _m in range(2):
                    p = r.randrange(len(t) + 1)
                    op = r.choice(['del', 'ins', 'rep', 'dup'])
                    if op == 'del' and p < len(t):
                        t = t[:p] + t[p + 1:]
                    elif op == 'ins':
                        t = t[:p] + r.choice(ALPHABET) + t[p:]
                    elif op == 'rep' and p < len(t):
                        t = t[:p] + r.choice(ALPHABET) + t[p + 1:]
                    else:
                        q = r.randrange(len(t) + 1)
                        t = t[:p] + t[min(p, q):max(p, q)] + t[p:]
                J.feed(t, 'double')
            # the same document as bytes, mutated at byte level (also in the middle of multi-byte characters)
            for charset in ('utf-8', 'utf-16', 'latin-1'):
                try:
                    data = text.encode(charset)
                except UnicodeEncodeError:
                    continue
                J.feed_bytes(data, 'unmutated', charset)
                for pos in range(len(data) + 1):
                    if pos % parts != part:
                        continue
                    if pos < len(data):
                        J.feed_bytes(data[:pos] + data[pos + 1:], 'delete', charset)
                        J.feed_bytes(data[:pos], 'truncate', charset)
                    for b in (b'\xff', b'\x80', b'\xc3', b'\x00', b'\xe2\x82', b'\xed\xa0\x80'):
                        J.feed_bytes(data[:pos] + b + data[pos:], 'insert', charset)
            if di == i % len(docs):
                ctx.sample({'corpus_document': text, 'mutations': 'delete/insert/replace at every offset, truncate, splice, random pairs'})
        ctx.count('max steps seen', 0)
        ctx.note('max function entries for one input in shard %d: %d' % (i, J.max_steps))
    elif spec['part'] == 'broken':
        r = random.Random(ctx.seed + 5)
        for cat, text in broken_docs(r):
            J.must_reject(text, cat)
        for g in structural_texts():
            for text in (g, 'ver:"3.0"\nx\n<<' + g + '>>\n', 'ver:"3.0"\nx,y\n[<<' + g + '>>],1\n', g + '\n' + g, 'ver:"3.0" gm:<<' + g + '>>\nx\n1\n'):
                J.feed(text, 'structural')
                ctx.count('structurally anomalous documents')
        ctx.sample({'broken_by_construction': [list(x) for x in broken_docs(r)[:3]]})
    elif spec['part'] == 'random':
        r = random.Random(ctx.seed * 1000003 + 920 + spec['sub'])
        for i in range(spec['n']):
            n = r.randint(0, 60)
            t = ''.join(r.choice(ALPHABET) for _ in range(n))
            if r.random() < 0.6:
                t = 'ver:"%s"' % r.choice(['2.0', '3.0', '3', '9.9']) + r.choice(['\n', ' ', '']) + t
            J.feed(t, 'random')
        if spec['sub'] == 0:
            # deep nesting (beyond the depth-3 corpus): the parser may give up, but only with ZincParseException,
            # and within the logical step budget
            for n in (6, 10, 20, 60, 150, 400):
                for opener, closer in (('[', ']'), ('{a:', '}'), ('<<ver:"3.0"\na\n', '\n>>')):
                    J.feed('ver:"3.0"\na\n' + opener * n + '1' + closer * n + '\n', 'deep-nesting')
                    J.feed('ver:"3.0"\na\n' + opener * n + '\n', 'deep-nesting')
        ctx.sample({'random_input': t})
    else:
        scalar_part(ctx, hszinc, spec)


def structural_texts():
    """Grid texts that are well-formed token by token but anomalous as a structure (a name used twice, rows that do not
    match the column line, nothing where something is required). Whether the reader takes or refuses them is its
    business; how it refuses them is the property's."""
    out = []
    for ver in ('3.0', '2.0'):
        h = 'ver:"%s"' % ver
        out += [h + '\na,a\n1,2\n', h + '\na,b,a\n1,2,3\n', h + '\nid,id\n@a,@b\n', h + '\na,a\n', h + ' m:1 m:2\na\n1\n', h + ' m m\na\n1\n',
                h + '\na c:1 c:2\n1\n', h + '\na c c,b\n1,2\n', h + '\na,b\n1\n', h + '\na\n1,2\n', h + '\na\n1,2,3,4,5,6\n', h + '\na,b,c\n,\n',
                h + '\n\n1\n', h + '\na,\n1,2\n', h + '\n,a\n1,2\n', h + ' ' + h + '\na\n1\n', h + '\n' + h + '\n1\n', h + '\nver\n1\n',
                h + '\na\n', h + '\n', h, h + '\na\n,\n', h + '\na\n\n\n1\n', h + ' ver:1\na\n1\n', h + '\nname name:1\n1\n',
                h + '\na a:a\na\n']
    out += ['ver:"3.0"\na\n{k:1 k:2}\n', 'ver:"3.0"\na\n{k k}\n', 'ver:"3.0"\na\n[{k:1 k:2},{k:1 k:2}]\n', 'ver:"3.0" m:{k:1 k:2}\na\n1\n']
    return out


def scalar_part(ctx, hszinc, spec):
    """parse_scalar: only ValueError-family exceptions may escape."""
    W = refzinc.Writer(None)
    r = random.Random(ctx.seed * 1000003 + 930)
    cat = [n for n in D.catalogue('core') if not (n[0] == 'dt' and n[2] % 60)]
    texts = []
    for n in cat:
        try:
            texts.append(W.val(n))
        except Exception:
            pass
    texts += ['hex("zz")', 'hex("0")', 'b64("!!!")', 'b64("A")', 'C(-,1)', 'C(1,)', '25:00:00', '2020-13-01', '2020-02-30T00:00:00Z',
              '2020-01-01T00:00:00Z Nowhere', '2020-01-01T00:00:00+99:99', '1e999', '-1e999', '1e', '@', '[', '{', '<<', '\\u', '"\\u00"',
              '"\\ud800"', '9' * 400, '1' + '_' * 50, '[' * 30, '{' * 30, 'Bin(', 'N' * 10, '0000-00-00', '9999-99-99', '99:99:99',
              '2020-01-01T24:00:00Z', '0001-01-01T00:00:00Z New_York', '9999-12-31T23:59:59Z Tokyo', '0001-01-01T00:00:00+14:00 UTC',
              '9999-12-31T23:59:59-12:00 Kiritimati', '0001-01-01T00:00:00Z', '9999-12-31T23:59:59.999999Z', '0001-01-01T00:00:00-00:01 London',
              '[0001-01-01T00:00:00Z New_York]', '{a:9999-12-31T23:59:59Z Tokyo}', 'C(1e400,1)', 'C(9' + '9' * 400 + ',1)', '1e400kg',
              '0001-01-01', '9999-12-31', '00:00:00.0000001', 'T', 'F', 'INF', '-INF', 'NaN', '-', '.', '-.', '1.', '.1', '1..2', '--1', '1e+', '1E-']
    # containers, and nested grids whose structure is anomalous: at scalar level no grid-level catch-all stands
    # between the grammar's parse actions and the caller
    for g in structural_texts():
        body = g.rstrip('\n')
        texts += ['<<' + g + '>>', '<<' + body + '>>', '[<<' + g + '>>]', '{k:<<' + g + '>>}']
    texts += ['[1,2,3]', '{a:1 b:"x" c}', '[[1],[2,[3]]]', '{a:{b:{c:[1]}}}', '[<<ver:"3.0"\na\n1\n>>,<<ver:"2.0"\nb\n2\n>>]']
    n_in = 0
    sj, sn = spec.get('slice', [0, 1])
    for bi, base in enumerate(texts):
        if bi % sn != sj:
            continue
        muts = {base}
        for pos in range(len(base) + 1):
            if pos < len(base):
                muts.add(base[:pos] + base[pos + 1:])
                muts.add(base[:pos])
            for ch in INTERESTING[:14 if spec['n'] == 1 else 24]:
                muts.add(base[:pos] + ch + base[pos:])
        for t in muts:
            for ver in ('2.0', '3.0'):
                ctx.case('scalar', t, ver)
                n_in += 1
                beat('scalar:' + ver, t)
                try:
                    hszinc.parse_scalar(t, mode=hs.ZINC, version=ver)
                    ctx.count('scalar outcome: parsed')
                except ValueError as e:
                    ctx.count('scalar outcome: ' + ('ZincParseException' if type(e).__name__ == 'ZincParseException' else 'other ValueError'))
                    ctx.cls('scalar-exc', type(e).__name__)
                except BaseException as e:   # noqa
                    ctx.violation({'part': 'scalar', 'format': 'zinc', 'kind': 'exception-type', 'symptom': 'escaped:' + type(e).__name__,
                                   'features': ['ver=' + ver]},
                                  'parse_scalar(%r, version=%s) let %s escape: %s' % (t, ver, type(e).__name__, str(e)[:100]),
                                  {'scalar': D._enc_s(t), 'ver': ver})
    ctx.count('scalar inputs', n_in)
    ctx.sample({'scalar_inputs': texts[:6]})


def replay(case, ctx):
    if 'watchdog' in case:
        payload = D._dec_s(case['payload'])
        took = confirm_hang(case['watchdog'], payload)
        if took is None:
            ctx.violation({'part': 'mutation', 'format': 'zinc', 'kind': 'termination', 'symptom': 'no-return-within-%ds' % CONFIRM_S,
                           'features': ['how=inside-one-call']}, 'parsing did not return within %d s: %r' % (CONFIRM_S, payload[:200]), case)
        return
    if 'bytes' in case:
        import hszinc
        meter_on()
        Judge(ctx, hszinc).feed_bytes(bytes.fromhex(case['bytes']), 'replay', case.get('charset', 'utf-8'))
        return
    import hszinc
    meter_on()
    if 'scalar' in case:
        t = D._dec_s(case['scalar'])
        try:
            hszinc.parse_scalar(t, mode=hs.ZINC, version=case['ver'])
        except ValueError:
            pass
        except BaseException as e:   # noqa
            ctx.violation({'part': 'scalar', 'format': 'zinc', 'kind': 'exception-type', 'symptom': 'escaped:' + type(e).__name__,
                           'features': ['ver=' + case['ver']]}, 'parse_scalar(%r) let %s escape' % (t, type(e).__name__), case)
        return
    J = Judge(ctx, hszinc)
    t = D._dec_s(case['text'])
    if case.get('category'):
        J.must_reject(t, case['category'])
    else:
        J.feed(t, 'replay')


def collect_watchdog(merged):
    """Inputs left behind by workers the watchdog ended: confirm (a few of) them alone, report those that still do not return."""
    if not os.path.isdir(HB_DIR):
        return
    mine = 'hb_%d_' % os.getpid()
    left = []
    for name in sorted(os.listdir(HB_DIR)):
        path = os.path.join(HB_DIR, name)
        if not name.startswith(mine):
            # left by an interrupted earlier run
            try:
                if time.time() - os.path.getmtime(path) > 6 * 3600:
                    os.unlink(path)
            except OSError:
                pass
            continue
        if name.endswith('.tb'):
            continue
        try:
            raw = open(path, 'rb').read()
            n = int.from_bytes(raw[:4], 'little')
            kind, _, payload = raw[4:4 + n].decode('utf-8', 'surrogatepass').partition('\n')
            tb = open(path + '.tb').read() if os.path.exists(path + '.tb') else ''
        except Exception:
            continue
        finally:
            for q in (path, path + '.tb'):
                try:
                    os.unlink(q)
                except OSError:
                    pass
        if tb.strip():           # otherwise the worker ended for another reason (reported as a crashed shard)
            left.append((kind, payload, tb))
    if not left:
        return
    merged['counters']['workers ended by the watchdog'] += len(left)
    left.sort(key=lambda x: len(x[1]))
    from concurrent.futures import ThreadPoolExecutor
    with ThreadPoolExecutor(max_workers=4) as ex:
        took = list(ex.map(lambda x: confirm_hang(x[0], x[1]), left[:4]))
    merged['counters']['watchdog firings re-run alone'] += len(took)
    for (kind, payload, tb), t in zip(left, took):
        if t is not None:
            merged['inconclusive'].append('watchdog fired on an input that returns in %.1f s when run alone (machine load?)' % t)
            continue
        where = [l.strip() for l in tb.splitlines() if 'hszinc' in l][:2]
        key = 'C09/mutation/zinc/-/termination/{how=inside-one-call}/no-return-within-%ds' % CONFIRM_S
        if key in merged['violations']:
            merged['violations'][key]['n'] += 1
            continue
        merged['violations'][key] = {
            'sig': {'part': 'mutation', 'format': 'zinc', 'kind': 'termination', 'symptom': 'no-return-within-%ds' % CONFIRM_S,
                    'features': ['how=inside-one-call']}, 'key': key,
            'what': 'parsing did not return within %d s (alone, fresh interpreter; the step meter saw no Python-level progress: the time '
                    'is spent inside one call) at %r | %s input %r | %d workers were ended by the watchdog' % (
                        CONFIRM_S, where, kind, payload[:200], len(left)),
            'case': {'watchdog': kind, 'payload': D._enc_s(payload)}, 'n': 1}


def finish(ctx, merged):
    collect_watchdog(merged)
    c = merged['counters']
    if c.get('watchdog armed shards', 0) == 0:
        ctx.inconclusive.append('no shard ran under the watchdog')
    if c.get('inputs', 0) < 50000:
        ctx.inconclusive.append('fewer than 50000 inputs: %d' % c.get('inputs', 0))
    if c.get('outcome: rejected', 0) < 1000 or c.get('outcome: parsed', 0) < 1000:
        ctx.inconclusive.append('outcome histogram too thin')
    nb = sum(v for k, v in c.items() if k.startswith('broken-by-construction: '))
    if nb < 150:
        ctx.inconclusive.append('fewer than 150 certainly-broken documents: %d' % nb)
    if c.get('scalar inputs', 0) < 5000:
        ctx.inconclusive.append('scalar inputs: %d' % c.get('scalar inputs', 0))
