"""C01 - ZINC round trip: parse(dump(g)) is g for every Haystack-valid grid."""
from vf import domain as D
from vf import hs, rt, rtdriver

PROP = 'C01'
FMT = 'zinc'
RULE = ('real hszinc.dump(MODE_ZINC) -> hszinc.parse round trips, compared with an own kind-aware comparator: (1) every '
        'value of a 411-value boundary catalogue x version through dump_scalar/parse_scalar; (2) each catalogue value alone '
        'in each of 3 (ver 2.0) / 7 (ver 3.0) positions of a sentinel grid; (3) seeded random grids (1-5 columns, 0-8 rows, '
        'metadata, nesting <= 3, version 2.0 / 3.0 / defaulted); (4) documents of 0-3 grids with single in {True, False}. '
        'Failing cases are minimised to one offending value before being reported. distinct = the case itself (value, '
        'position, version / grid); all are non-trivial')
ASSUME = ['vf.domain.diff is the comparator (numbers exact, coordinates to six decimals)',
          'Haystack value domain of DESIGN.md 2.1 (units not starting with "_", no non-finite quantity, whole-minute UTC offsets)']


def in_domain(n):
    return True


def judge_grid(n):
    return rt.grid_rt(n, hs.ZINC, False)


def judge_scalar(n, ver):
    return rt.scalar_rt(n, hs.ZINC, ver, False)


def judge_multi(ns, single):
    return rt.multi_rt(ns, hs.ZINC, False, single)


import sys
_me = sys.modules[__name__]


def shards(tier, seed):
    return rtdriver.shards(tier, seed, thorough_grids=24000)


def run_shard(spec, ctx):
    rtdriver.run_shard(_me, spec, ctx)


def replay(case, ctx):
    rtdriver.replay(_me, case, ctx)


def finish(ctx, merged):
    c = merged['counters']
    for key, least in (('scalar round trips', 500), ('position round trips', 2000), ('grid round trips', 1000),
                       ('multi-grid round trips', 100)):
        if c.get(key, 0) < least:
            ctx.inconclusive.append('%s: %d < %d' % (key, c.get(key, 0), least))
