"""C11 - Grid.filter selects exactly the rows the Haystack filter denotes."""
import itertools
import random

from vf import domain as D
from vf import hs
from vf import reffilter as F

PROP = 'C11'
RULE = ('filter ASTs are rendered to text (spacing / redundant parentheses varied) so that hszinc\'s filter parser and '
        'compiler are both on the path, and run through the real Grid.filter on grids whose rows cover, per tag, the abstract '
        'values absent / null / marker / equal / below / above / other kind / other unit / valid, dangling and non-Ref '
        'references; the returned rows (by identity, in order) are compared with a three-valued reference evaluator; rows '
        'whose expected value is not firmly specified are left out. Exhaustive: every AST with <= 3 atoms over a core atom '
        'set x 9 and/or shapes; plus seeded random ASTs of up to 8 atoms with literals of every kind, with limit, on grids '
        'with Ref ids and with str ids. distinct = (filter text, grid variant); non-trivial = filter has a comparison, a path or >= 2 atoms')
ASSUME = ['vf/reffilter.py (Haystack filter semantics, DESIGN.md 3/C11): unspecified = explicit null cell, != between kinds, '
          'number vs quantity, bool vs number, reference equality with display names, NaN, duplicate ids',
          'comparison on an absent tag or between incomparable kinds is False for all six operators (statement; pinned by '
          'tests for !=)']

NUM = lambda v, u=None: ('num', v, u)     # noqa
LITS = {
    'num': NUM(5), 'qty': NUM(5, 'kg'), 'str': ('str', 'm'), 'bool': ('bool', True), 'date': ('date', 2020, 6, 15),
    'time': ('time', 12, 0, 0, 0), 'uri': ('uri', 'http://u/'), 'ref': ('ref', 'x', None),
    'dt': ('dt', (2020, 6, 15, 12, 0, 0, 0), 0, 'UTC'), 'numf': NUM(2.5), 'neg': NUM(-3), 'str2': ('str', 'hello world'),
    'false': ('bool', False), 'qty2': NUM(1.5, u'\u00b0C'),
    'str-esc': ('str', 'q"uo\\te'), 'str-uni': ('str', u'caf\u00e9 \U0001f600'), 'str-nl': ('str', 'two\nlines'),
    'str-blanks': ('str', 'two  blanks'), 'uri-blanks': ('uri', 'a  b'), 'refdis-blanks': ('ref', 'x', 'Dis  play'),
    'bin': ('bin', 'm'), 'uri-m': ('uri', 'm'), 'bin-mime': ('bin', 'text/plain'),
    # magnitudes whose shortest spelling has an exponent (1e+16, 1.5e+20kg, 1e-05, 1e+300)
    # the singleton literals: comparing with them is a comparison like any other (a string "N" is not null)
    'null': D.NULL, 'marker': D.MARKER, 'na': D.NA,
    'big': NUM(1e16), 'bigq': NUM(1.5e20, 'kg'), 'small': NUM(1e-05), 'huge': NUM(1e300), 'negbig': NUM(-2.5e17),
    'uri-esc': ('uri', 'http://u/`tick'), 'inf': NUM(float('inf')), 'ninf': NUM(float('-inf')), 'refdis': ('ref', 'x', 'Dis play'),
}
EXTRA_LITS = ('null', 'marker', 'na', 'big', 'bigq', 'small', 'huge', 'negbig', 'bin-mime', 'uri-m', 'dt', 'numf', 'neg', 'str2', 'false', 'qty2', 'str-esc', 'str-uni', 'str-nl', 'uri-esc', 'inf', 'ninf', 'str-blanks', 'uri-blanks')
POOL = {
    # value pool per data tag: covers equal / below / above / other kind / other unit for every literal above
    'a': [None, D.NULL, D.MARKER, NUM(5), NUM(4), NUM(6), NUM(5.0), NUM(2.5), NUM(-3), NUM(5, 'kg'), NUM(4, 'kg'), NUM(6, 'kg'),
          NUM(5, 'm'), ('str', 'm'), ('str', 'a'), ('str', 'z'), ('bool', True), ('bool', False), ('date', 2020, 6, 15),
          ('date', 2019, 1, 1), ('date', 2021, 1, 1), ('time', 12, 0, 0, 0), ('time', 11, 59, 59, 0), ('time', 12, 0, 0, 1),
          ('uri', 'http://u/'), ('uri', 'http://v/'), ('ref', 'x', None), ('ref', 'y', None),
          ('dt', (2020, 6, 15, 12, 0, 0, 0), 0, 'UTC'), ('dt', (2020, 6, 15, 22, 0, 0, 0), 36000, 'Brisbane'),
          ('dt', (2021, 1, 1, 0, 0, 0, 0), 0, 'UTC'), ('str', 'hello world'), NUM(1.5, u'\u00b0C'), ('coord', 1.0, 2.0),
          ('str', 'two  blanks'), ('str', 'two blanks'), ('uri', 'a  b'), ('uri', 'a b'),
          ('str', 'q"uo\\te'), ('str', u'caf\u00e9 \U0001f600'), ('str', 'two\nlines'), ('uri', 'http://u/`tick'), NUM(float('inf')),
          ('str', 'N'), ('str', 'M'), ('str', 'NA'), ('str', 'R'), ('str', 'T'), ('str', 'F'), D.NA, D.REMOVE,
          NUM(float('-inf')), NUM(1e300), NUM(1e16), NUM(1.5e20, 'kg'), NUM(1e-05), NUM(-2.5e17), NUM(2e16), NUM(1e20, 'kg'), ('bin', 'm'), ('bin', 'a'), ('bin', 'z'), ('uri', 'm'), ('uri', 'a'), ('uri', 'z'),
          ('bin', 'text/plain'), ('uri', 'text/plain'), ('str', 'text/plain')],
    'r': [None, ('ref', 'x', None), ('ref', 'y', None), ('ref', 'nowhere', None), ('str', 'x'), D.MARKER, NUM(5), ('ref', 'x', 'Dis')],
}
POOL['b'] = POOL['a']
POOL['c'] = POOL['a'][:20]
TAGS = ['a', 'b', 'c']


def make_rows(r, n, idkind):
    """N-form rows: two reference targets x, y first, then n rows drawn from the pools (each pool value used)."""
    def mkid(name):
        return ('ref', name, None) if idkind == 'ref' else ('str', name)
    # the two reference targets also point at each other, so that the *last* segment of a path can be a reference
    rows = [{'id': mkid('x'), 'a': NUM(5), 'b': ('str', 'm'), 'c': D.MARKER, 'r': ('ref', 'y', None)},
            {'id': mkid('y'), 'a': NUM(6, 'kg'), 'b': ('str', 'z'), 'r': ('ref', 'x', None)}]
    # cross rows: every combination of the values that look alike across kinds (5, 5kg, 5m, ...) on two tags, so that
    # two literals of one filter can interact (a number and a quantity of equal magnitude, equal texts of other kinds)
    alike = [NUM(5), NUM(5, 'kg'), NUM(5, 'm'), NUM(4, 'kg'), ('str', 'm'), ('uri', 'm'), ('bin', 'm'), ('bool', True), NUM(1)]
    for va in alike:
        for vb in alike:
            rows.append({'a': va, 'b': vb, 'c': va})
    # an id carried by two rows (never a path target, so dereferencing stays well defined), and the look-alike id of the
    # other kind: a comparison on `id` is a comparison like any other, row by row
    rows.append({'id': mkid('dup'), 'a': NUM(1), 'c': D.MARKER})
    rows.append({'id': mkid('dup'), 'a': NUM(2), 'b': ('str', 'm')})
    rows.append({'id': ('str', '@dup') if idkind == 'ref' else ('ref', 'dup', None), 'a': NUM(3)})
    maxlen = max(len(POOL['a']), n)
    for i in range(maxlen):
        row = {}
        for t in ('a', 'b', 'c', 'r'):
            pool = POOL[t]
            v = pool[i % len(pool)] if t == 'a' else r.choice(pool)
            if t == 'b' and i < len(pool) * 2:
                v = pool[(i * 7 + 3) % len(pool)]
            if v is not None:
                row[t] = v
        if r.random() < 0.3:
            row['id'] = mkid('id%d' % i)
        rows.append(row)
    return rows


def build_grid(rows, version='3.0'):
    import hszinc
    g = hszinc.Grid(version=version, metadata={'gm': 'meta'}, columns=[(c, []) for c in ('id', 'a', 'b', 'c', 'r', 'zz')])
    hrows = []
    for row in rows:
        h = dict((k, hs.to_hs(v)) for k, v in row.items())
        hrows.append(h)
        g.append(h)
    return g, hrows


def atoms_core():
    A = []
    A += [('has', ['a']), ('not', ['a']), ('has', ['b']), ('not', ['c']), ('has', ['r', 'a']), ('not', ['r', 'b'])]
    A += [('cmp', '==', ['a'], LITS['num']), ('cmp', '<', ['a'], LITS['num']), ('cmp', '>=', ['a'], LITS['num']),
          ('cmp', '!=', ['b'], LITS['str']), ('cmp', '<=', ['b'], LITS['str']), ('cmp', '==', ['c'], LITS['bool']),
          ('cmp', '>', ['a'], LITS['qty']), ('cmp', '==', ['r', 'a'], LITS['num']),
          ('cmp', '==', ['b'], LITS['num']), ('cmp', '==', ['a'], LITS['qty']), ('cmp', '>=', ['c'], LITS['qty'])]
    return A


def atoms_all():
    A = []
    for t in TAGS:
        A += [('has', [t]), ('not', [t])]
        for op in F.OPS:
            for lk in ('num', 'qty', 'str', 'bool', 'date', 'time', 'uri', 'ref', 'bin'):
                A.append(('cmp', op, [t], LITS[lk]))
    for lk in EXTRA_LITS:
        for op in ('==', '!=', '<', '>='):
            A.append(('cmp', op, ['a'], LITS[lk]))
    A += [('cmp', '==', ['id'], ('ref', 'dup', None)), ('cmp', '==', ['id'], ('ref', 'x', None)), ('cmp', '==', ['id'], ('str', 'dup')),
          ('cmp', '==', ['id'], ('str', '@dup')), ('cmp', '==', ['id'], ('ref', 'nowhere', None)), ('has', ['id']), ('not', ['id'])]
    A += [('has', ['r', 'a']), ('not', ['r', 'a']), ('has', ['r']), ('not', ['r']), ('has', ['r', 'r', 'a']),
          ('cmp', '==', ['r', 'a'], LITS['num']), ('cmp', '<', ['r', 'a'], LITS['qty']), ('cmp', '!=', ['r', 'b'], LITS['str']),
          ('cmp', '==', ['r'], LITS['ref']), ('cmp', '==', ['r', 'r'], ('ref', 'y', None)), ('cmp', '!=', ['r', 'r'], ('ref', 'x', None)),
          ('cmp', '==', ['r', 'r', 'a'], LITS['num']), ('has', ['r', 'r']), ('not', ['r', 'r', 'r', 'a'])]
    return A


def shapes(x, y=None, z=None):
    if y is None:
        return [x]
    if z is None:
        return [('and', [x, y]), ('or', [x, y])]
    return [('and', [x, y, z]), ('or', [x, y, z]), ('or', [('and', [x, y]), z]), ('or', [x, ('and', [y, z])]),
            ('and', [('or', [x, y]), z]), ('and', [x, ('or', [y, z])])]


def nontrivial(ast):
    return F.size(ast) >= 2 or ast[0] == 'cmp' or len(ast[1]) > 1


def run_filter(g, text, limit=0):
    """Returns ('ok', [row objects]) or ('raise', ExcName, message)."""
    try:
        res = g.filter(text, limit)
        return ('ok', list(res), res)
    except Exception as e:   # noqa
        return ('raise', type(e).__name__, str(e)[:200])


def judge(ctx, ast, text, g, rows, hrows, variant, limit=0, header_check=True):
    """Compare one filter on one grid. Returns None or (symptom, row_index|None, detail)."""
    exp = [F.evaluate(ast, row, rows) for row in rows]
    out = run_filter(g, text, limit)
    ctx.count('(filter,row) evaluations compared', sum(1 for e in exp if e is not None))
    ctx.count('(filter,row) evaluations unspecified', sum(1 for e in exp if e is None))
    if out[0] == 'raise':
        # which row makes it raise? (single-row probing keeps the reference targets)
        return ('raises:' + out[1], None, out[2])
    got_ids = [id(x) for x in out[1]]
    pos = {id(h): i for i, h in enumerate(hrows)}
    if any(i not in pos for i in got_ids):
        return ('foreign-row', None, 'filter returned a row object that is not a row of the grid')
    idxs = [pos[i] for i in got_ids]
    if idxs != sorted(idxs) or len(set(idxs)) != len(idxs):
        return ('wrong-order', None, 'rows returned in order %r' % (idxs[:10],))
    if header_check:
        res = out[2]
        if str(res.version) != str(g.version) or list(res.metadata.items()) != list(g.metadata.items()) or \
                list(res.column.keys()) != list(g.column.keys()):
            return ('header-not-carried', None, 'result grid lacks version/metadata/columns of the source')
    if limit:
        if any(e is None for e in exp):
            return None
        want = [i for i, e in enumerate(exp) if e][:limit]
        if idxs != want:
            return ('wrong-rows:limit', None, 'limit=%d gave rows %r, expected %r' % (limit, idxs, want))
        return None
    gs = set(idxs)
    for i, e in enumerate(exp):
        if e is True and i not in gs:
            return ('wrong-rows:missing-true-row', i, 'row %r satisfies the filter but was not returned' % (rows[i],))
        if e is False and i in gs:
            return ('wrong-rows:included-false-row', i, 'row %r does not satisfy the filter but was returned' % (rows[i],))
    return None


def value_class(v, lit):
    if v is None:
        return 'absent'
    if v == D.NULL:
        return 'null'
    kv, kl = D.base_kind(v), D.base_kind(lit) if lit else None
    if lit is None:
        return 'kind=' + kv
    if kv != kl:
        return 'other-kind:' + kv
    if kv == 'qty' and v[2] != lit[2]:
        return 'other-unit'
    return 'same-kind'


def atoms_of(ast):
    if ast[0] in ('and', 'or'):
        out = []
        for c in ast[1]:
            out += atoms_of(c)
        return out
    return [ast]


def report(ctx, ast, text, rows, variant, res, limit):
    """Attribute: smallest sub-filter and single row that still misbehave."""
    import hszinc
    sym = res[0]
    R = F.Renderer(None)
    cands = [a for a in atoms_of(ast)]
    if F.size(ast) > 2:
        atoms = atoms_of(ast)
        for x, y in itertools.combinations(atoms, 2):
            cands += [('and', [x, y]), ('or', [x, y])]
    cands.append(ast)
    targets = rows[:2]
    for cand in cands:
        ctext = R.render(cand) if cand is not ast else text
        for ri in range(len(rows)):
            sub = targets + ([rows[ri]] if ri >= 2 else [])
            g, hrows = build_grid(sub)
            r2 = judge(_Null(), cand, ctext, g, sub, hrows, variant, 0, header_check=False)
            if r2 and r2[0].split(':')[0] == sym.split(':')[0]:
                row = sub[-1] if ri >= 2 else sub[ri]
                feats = {'shape=' + F.shape(cand), 'ids=' + variant}
                kind = '-'
                for a in atoms_of(cand):
                    if a[0] == 'cmp':
                        v = row.get(a[2][0]) if len(a[2]) == 1 else None
                        feats.add('op=' + a[1])
                        feats.add('lit=' + D.kind(a[3]))
                        feats |= {'lit-' + f for f in D.features(a[3])}
                        kind = D.kind(a[3])
                        if len(a[2]) == 1:
                            feats.add('value=' + value_class(v, a[3]))
                    else:
                        feats.add(a[0])
                        if len(a[1]) == 1:
                            feats.add('value=' + value_class(row.get(a[1][0]), None).split('=')[0])
                    plen = len(a[2] if a[0] == 'cmp' else a[1])
                    if plen > 1:
                        feats.add('path-len=%d' % plen)
                        feats.add('via=' + value_class(row.get((a[2] if a[0] == 'cmp' else a[1])[0]), None))
                if ctext != R.render(cand):
                    feats.add('as-rendered')
                ctx.violation({'part': 'filter', 'kind': kind, 'symptom': r2[0], 'features': sorted(feats)},
                              'filter %r on row %r: %s' % (ctext, row, r2[2]),
                              {'ast': enc_ast(cand), 'text': ctext, 'rows': [enc_row(x) for x in sub], 'ids': variant})
                return
    ctx.violation({'part': 'filter', 'kind': '-', 'symptom': sym, 'features': ['shape=' + F.shape(ast), 'ids=' + variant, 'not-minimised'] +
                   (['limit'] if limit else [])},
                  'filter %r (limit %d): %s' % (text, limit, res[2]),
                  {'ast': enc_ast(ast), 'text': text, 'rows': [enc_row(x) for x in rows], 'ids': variant, 'limit': limit})


class _Null(object):
    def count(self, *a, **k):
        pass


def enc_ast(a):
    if a[0] in ('and', 'or'):
        return [a[0], [enc_ast(c) for c in a[1]]]
    if a[0] == 'cmp':
        return ['cmp', a[1], a[2], D.enc(a[3])]
    return [a[0], a[1]]


def dec_ast(j):
    if j[0] in ('and', 'or'):
        return (j[0], [dec_ast(c) for c in j[1]])
    if j[0] == 'cmp':
        return ('cmp', j[1], j[2], D.dec(j[3]))
    return (j[0], j[1])


def enc_row(r):
    return dict((k, D.enc(v)) for k, v in r.items())


def dec_row(r):
    return dict((k, D.dec(v)) for k, v in r.items())


def shards(tier, seed):
    n = 16
    out = [{'part': 'exhaustive', 'atoms': 'core' if tier == 'quick' else 'core+', 'slice': [i, n]} for i in range(n)]
    out += [{'part': 'singles'}]
    nr = 1500 if tier == 'quick' else 60000
    k = 4 if tier == 'quick' else 16
    out += [{'part': 'random', 'n': nr // k, 'sub': j} for j in range(k)]
    return out


def random_ast(r, atoms, maxatoms):
    n = r.randint(1, maxatoms)

    def build(k):
        if k == 1:
            return r.choice(atoms)
        op = r.choice(['and', 'or'])
        parts = r.randint(2, min(4, k))
        cuts = sorted(r.sample(range(1, k), parts - 1)) if k > parts - 1 else list(range(1, k))
        sizes = [b - a for a, b in zip([0] + cuts, cuts + [k])]
        return (op, [build(s) for s in sizes])
    return build(n)


def run_shard(spec, ctx):
    r = random.Random(ctx.seed * 1000003 + 1100 + spec.get('sub', 0) + sum(spec.get('slice', [0])))
    if spec['part'] == 'exhaustive':
        atoms = atoms_core()
        if spec['atoms'] == 'core+':
            extra = [a for a in atoms_all() if a not in atoms]
            r2 = random.Random(7)
            atoms = atoms + r2.sample(extra, 10)
        i, n = spec['slice']
        grids = {}
        for variant in ('ref', 'str'):
            rows = make_rows(random.Random(11), 40, variant)
            if variant == 'str':
                # an unversioned grid that became 3.0 because of one row (a list cell under a tag no filter mentions):
                # results that leave that row out must still carry the source's version
                rows.append({'zz': ('list', (NUM(1),))})
            g, hrows = build_grid(rows, version='3.0' if variant == 'ref' else None)
            grids[variant] = (g, rows, hrows)
        R = F.Renderer(r)
        count = 0
        asts = []
        for x in atoms:
            asts += shapes(x)
        for x, y in itertools.product(atoms, repeat=2):
            asts += shapes(x, y)
        for x, y, z in itertools.product(atoms, repeat=3):
            asts += shapes(x, y, z)
        for k, ast in enumerate(asts):
            if k % n != i:
                continue
            variant = 'ref' if (k // n) % 2 == 0 else 'str'
            g, rows, hrows = grids[variant]
            text = R.render(ast)
            ctx.case(text, variant, nontrivial=nontrivial(ast))
            ctx.count('filters run')
            ctx.cls('shape', F.shape(ast) if F.size(ast) < 3 else F.shape(ast).split('(')[0] + '3')
            res = judge(ctx, ast, text, g, rows, hrows, variant)
            if res:
                report(ctx, ast, text, rows, variant, res, 0)
            count += 1
        ctx.sample({'filter': R.render(asts[len(asts) // 2 + i]), 'atoms': len(atoms), 'asts_total': len(asts)})
    elif spec['part'] == 'singles':
        # every single atom of the full atom set, on both grid variants, with and without limit
        R = F.Renderer(r)
        for variant in ('ref', 'str'):
            rows = make_rows(random.Random(12), 60, variant)
            if variant == 'str':
                rows.append({'zz': ('dict', (('k', NUM(1)),))})
            g, hrows = build_grid(rows, version='3.0' if variant == 'ref' else None)
            for ast in atoms_all():
                for lim in (0, 1, 3):
                    text = R.render(ast)
                    ctx.case(text, variant, lim, nontrivial=nontrivial(ast))
                    ctx.count('filters run')
                    if ast[0] == 'cmp':
                        ctx.cls('atom', ast[1], D.kind(ast[3]), 'path%d' % len(ast[2]))
                    else:
                        ctx.cls('atom', ast[0], 'path%d' % len(ast[1]))
                    res = judge(ctx, ast, text, g, rows, hrows, variant, lim)
                    if res:
                        report(ctx, ast, text, rows, variant, res, lim)
            # source grid untouched
            ctx.count('source grids checked unchanged')
            if [id(x) for x in g] != [id(x) for x in hrows] or len(g) != len(hrows):
                ctx.violation({'part': 'filter', 'kind': '-', 'symptom': 'source-grid-changed', 'features': []},
                              'filtering changed the source grid rows', {})
        ctx.sample({'atoms_all': len(atoms_all())})
    else:
        atoms = atoms_all()
        lits_extra = [LITS[k] for k in EXTRA_LITS]
        for lit in lits_extra:
            for op in F.OPS:
                atoms.append(('cmp', op, [r.choice(TAGS)], lit))
        odd_tags = ['notes', 'nothing', 'android', 'orange', 'trueValue', 'falsey', 'andorra', 'or1']
        R = F.Renderer(r)
        for i in range(spec['n']):
            variant = r.choice(['ref', 'str'])
            rows = make_rows(r, 34, variant)
            use_odd = r.random() < 0.15
            ast = random_ast(r, atoms, 8)
            if use_odd:
                t = r.choice(odd_tags)
                for row in rows[2:]:
                    if 'a' in row and r.random() < 0.7:
                        row[t] = row['a']
                ast = ('and', [ast, r.choice([('has', [t]), ('not', [t]), ('cmp', '==', [t], LITS['num'])])]) if r.random() < 0.5 \
                    else r.choice([('has', [t]), ('not', [t]), ('cmp', '<', [t], LITS['num'])])
            uv = r.random() < 0.3
            if uv:
                rows.append({'zz': D.NA})
            g, hrows = build_grid(rows, version=None if uv else r.choice(['3.0', '3.0', None]))
            text = R.render(ast)
            lim = r.choice([0, 0, 1, 2, 5])
            ctx.case(text, variant, lim, nontrivial=nontrivial(ast))
            ctx.count('filters run')
            ctx.cls('random', 'atoms=%d' % F.size(ast), 'limit' if lim else 'nolimit')
            res = judge(ctx, ast, text, g, rows, hrows, variant, lim)
            if res:
                report(ctx, ast, text, rows, variant, res, lim)
            if i == 0:
                ctx.sample({'random_filter': text, 'limit': lim, 'ids': variant})


def replay(case, ctx):
    ast = dec_ast(case['ast'])
    rows = [dec_row(x) for x in case['rows']]
    g, hrows = build_grid(rows)
    res = judge(ctx, ast, case['text'], g, rows, hrows, case.get('ids', 'ref'), case.get('limit', 0))
    if res:
        report(ctx, ast, case['text'], rows, case.get('ids', 'ref'), res, case.get('limit', 0))


def finish(ctx, merged):
    c = merged['counters']
    if c.get('filters run', 0) < 5000:
        ctx.inconclusive.append('filters run: %d' % c.get('filters run', 0))
    if c.get('(filter,row) evaluations compared', 0) < 100000:
        ctx.inconclusive.append('too few (filter,row) evaluations compared')
