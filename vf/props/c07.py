"""C07 - anything parsed can be re-dumped, transcoded and re-parsed unchanged; dumping is pure and normalisation idempotent."""
import hashlib
import json
import random
import sys

from vf import domain as D
from vf import hs
from vf import minimize as M
from vf.props import c03, c05

PROP = 'C07'
RULE = ('documents of the C03 (ZINC) and C05 (JSON) independent writers are parsed by the real parser (m1), so the grids '
        'carry parser-made objects; each parsed grid is then dumped in both formats (m2): no error; a deep snapshot of the '
        'grid (N-form, version, tzinfo identities) is unchanged by dump; two dumps are identical; parse(dump) equals the '
        'grid (six-decimal rule when JSON is in the chain); chains ZINC->JSON->ZINC->JSON and JSON->ZINC->JSON->ZINC; '
        'N = dump.parse in one format is idempotent character for character. Thorough tier repeats the dumps under 8 '
        'PYTHONHASHSEED values in separate processes and compares the texts. distinct = (document, m1); non-trivial = all')
ASSUME = ['documents that the reader itself rejects or mis-decodes are C03/C05 business and are skipped here (counted)',
          'vf.domain.diff as comparator']
_me = sys.modules[__name__]
MODES = {'zinc': hs.ZINC, 'json': hs.JSON}


def snapshot(g):
    n = hs.from_grid(g)
    tz = []
    for row in g:
        for v in row.values():
            if hasattr(v, 'tzinfo') and getattr(v, 'tzinfo', None) is not None:
                tz.append(id(v.tzinfo))
    return (repr(n), str(g.version), tuple(tz), len(g), tuple(id(r) for r in g))


def has_nan(g):
    """NaN is not equal to itself, and a zone-less stamp comes back under a zone name (another tzinfo object, which Grid ==
    compares): for such grids the library's == is not expected to say True."""
    from vf import hs as _hs
    return any((x[0] == 'num' and isinstance(x[1], float) and x[1] != x[1]) or (x[0] == 'dt' and x[3] is None)
               for _, x in D.walk(_hs.from_grid(g), 'top'))


def check_grid(g, m1, chain=True, content=True):
    """g: grid returned by parse(.., m1). Returns (symptom|None, detail, m2)."""
    import hszinc
    for m2 in ('zinc', 'json'):
        before = snapshot(g)
        try:
            s = hszinc.dump(g, mode=MODES[m2])
        except Exception as e:
            return 'dump-raises:' + type(e).__name__, '%s -> dump %s: %s' % (m1, m2, str(e)[:200]), m2
        if snapshot(g) != before:
            return 'dump-mutated-grid', 'dump(%s) changed the grid' % m2, m2
        try:
            s2 = hszinc.dump(g, mode=MODES[m2])
        except Exception as e:
            return 'second-dump-raises:' + type(e).__name__, str(e)[:200], m2
        if s2 != s:
            return 'dump-not-deterministic', 'two dumps (%s) differ' % m2, m2
        try:
            g2 = hszinc.parse(s, mode=MODES[m2])
        except Exception as e:
            return 'reparse-raises:' + type(e).__name__, 'parse(dump(g, %s)): %s | text %r' % (m2, str(e)[:200], s[:200]), m2
        tol = (m1 == 'json' or m2 == 'json')
        d = D.grid_diff(hs.from_grid(g), hs.from_grid(g2), tol)
        if d and content:
            return 'transcode:' + d[1], '%s->%s %s: %s' % (m1, m2, d[0], d[2]), m2
        # the library's own equality on the two grids (it reads the values, which must not disturb them), then the
        # grid once more: still the same text
        try:
            eq = (g == g2)
        except Exception as e:
            return 'equality-raises:' + type(e).__name__, '%s->%s: parsed grid == re-parsed grid raised %s' % (m1, m2, str(e)[:120]), m2
        if content and not d and eq is not True and not has_nan(g):
            return 'reparsed-grid-not-equal', '%s->%s: the grid parsed from the dump does not compare equal (==) to the dumped grid' % (m1, m2), m2
        try:
            s5 = hszinc.dump(g, mode=MODES[m2])
        except Exception as e:
            return 'dump-after-compare-raises:' + type(e).__name__, str(e)[:200], m2
        if s5 != s:
            return 'dump-not-deterministic', 'the same grid dumps (%s) differently after it was compared with ==: %r, before %r' % (
                m2, s5[:200], s[:200]), m2
        if not content:
            continue
        # normalisation idempotence in format m2: N(x) = dump(parse(x)); here s = N-form of g in m2
        try:
            s3 = hszinc.dump(g2, mode=MODES[m2])
        except Exception as e:
            return 'renormalise-raises:' + type(e).__name__, str(e)[:200], m2
        if s3 != s and m1 == m2:
            return 'normalise-not-idempotent', 'N(N(x)) != N(x) in %s: %r vs %r' % (m2, s[:200], s3[:200]), m2
        if s3 != s and m1 != m2:
            # g came from the other format; N in m2 starts at s: N(s) = s3, N(N(s)) must equal s3
            try:
                s4 = hszinc.dump(hszinc.parse(s3, mode=MODES[m2]), mode=MODES[m2])
            except Exception as e:
                return 'renormalise-raises:' + type(e).__name__, str(e)[:200], m2
            if s4 != s3:
                return 'normalise-not-idempotent', 'N(N(x)) != N(x) in %s' % m2, m2
    if chain:
        cur = g
        order = ['json', 'zinc', 'json', 'zinc'] if m1 == 'zinc' else ['zinc', 'json', 'zinc', 'json']
        for step, m in enumerate(order):
            try:
                nxt = hszinc.parse(hszinc.dump(cur, mode=MODES[m]), mode=MODES[m])
            except Exception as e:
                return 'chain-raises:' + type(e).__name__, 'step %d (%s): %s' % (step, m, str(e)[:200]), m
            d = D.grid_diff(hs.from_grid(g), hs.from_grid(nxt), True)
            if d:
                return 'chain:' + d[1], 'after %d hops %s: %s' % (step + 1, d[0], d[2]), m
            cur = nxt
    return None, '', None


ALIASES = {'zinc': ['zinc', 'ZINC', 'Zinc'], 'json': ['json', 'JSON', 'Json']}


def check_doc(gs, m1, seed):
    """gs: the list parse(.., single=False) returned for a document of 0, 2 or 3 grids. The whole list is dumped and
    re-parsed in both formats, the format being named by the constant or by one of the accepted spellings."""
    import hszinc
    r = random.Random(seed ^ 0xA11A5)
    for m2 in ('zinc', 'json'):
        spell = r.choice(ALIASES[m2] + [MODES[m2]])
        before = [snapshot(g) for g in gs]
        try:
            s = hszinc.dump(gs, mode=spell)
        except Exception as e:
            return 'dump-raises:' + type(e).__name__, 'document of %d grids, %s -> dump mode=%r: %s' % (len(gs), m1, spell, str(e)[:200]), m2
        if [snapshot(g) for g in gs] != before:
            return 'dump-mutated-grid', 'dump(list, %r) changed a grid' % (spell,), m2
        try:
            ref = hszinc.dump(gs, mode=MODES[m2])
        except Exception as e:
            return 'second-dump-raises:' + type(e).__name__, str(e)[:200], m2
        if ref != s:
            return 'dump-not-deterministic', 'dump of %d grids with mode=%r differs from mode=%r: %r vs %r' % (
                len(gs), spell, MODES[m2], s[:120], ref[:120]), m2
        try:
            back = hszinc.parse(s, mode=r.choice(ALIASES[m2] + [MODES[m2]]), single=False)
        except Exception as e:
            return 'reparse-raises:' + type(e).__name__, 'parse(dump(%d grids, %r)): %s | text %r' % (len(gs), spell, str(e)[:200], s[:200]), m2
        if len(back) != len(gs):
            return 'transcode:shape-changed', '%d grids dumped with mode=%r, %d read back | text %r' % (len(gs), spell, len(back), s[:200]), m2
        for a, b in zip(gs, back):
            d = D.grid_diff(hs.from_grid(a), hs.from_grid(b), True)
            if d:
                return 'transcode:' + d[1], '%s->%s (document) %s: %s' % (m1, m2, d[0], d[2]), m2
        try:
            s3 = hszinc.dump(back, mode=r.choice(ALIASES[m2] + [MODES[m2]]))
            s4 = hszinc.dump(hszinc.parse(s3, mode=MODES[m2], single=False), mode=MODES[m2])
        except Exception as e:
            return 'renormalise-raises:' + type(e).__name__, str(e)[:200], m2
        if s4 != s3:
            return 'normalise-not-idempotent', 'N(N(x)) != N(x) in %s for a document of %d grids' % (m2, len(gs)), m2
    return None, '', None


def judge_doc(ns, m1, seed):
    import hszinc
    if m1 == 'zinc':
        w, text = c03.build_doc(ns, seed, None, False, 'str')
    else:
        from vf import refjson
        w = refjson.Writer(random.Random(seed))
        text = json.dumps(w.doc(ns, array=True))
    try:
        gs = hszinc.parse(text, mode=MODES[m1], single=False)
    except Exception:
        return 'skip', 'reader rejected', {'text': text}
    if len(gs) != len(ns) or any(D.grid_diff(n, hs.from_grid(g), m1 == 'json') for n, g in zip(ns, gs)):
        return 'skip', 'reader mis-decoded (C03/C05)', {'text': text}
    sym, detail, m2 = check_doc(gs, m1, seed)
    return sym, detail, {'text': text, 'm2': m2}


def judge(ns, m1, seed, script=None):
    """Build the document for ns in format m1 with the independent writer, parse it, check the parsed grid."""
    import hszinc
    if m1 == 'zinc':
        w, text = c03.build_doc(ns, seed, script, True, 'str')
        try:
            g = hszinc.parse(text, mode=hs.ZINC)
        except Exception:
            return 'skip', 'reader rejected', {'text': text}
    else:
        from vf import refjson
        policy = script if isinstance(script, dict) else None
        w = refjson.Writer(random.Random(seed), policy=policy)
        obj = w.doc(ns, array=False)
        text = json.dumps(obj)
        try:
            g = hszinc.parse(text, mode=hs.JSON)
        except Exception:
            return 'skip', 'reader rejected', {'text': text}
    if D.grid_diff(ns[0], hs.from_grid(g), m1 == 'json'):
        # what the grid holds is C03/C05's business; that dumping it is a pure function of it is still this property's
        sym, detail, m2 = check_grid(g, m1, chain=False, content=False)
        if sym and sym.split(':')[0] in ('dump-not-deterministic', 'dump-mutated-grid'):
            return sym, detail + ' (grid the reader did not decode as written)', {'text': text, 'm2': m2, 'trace': w.trace}
        return 'skip', 'reader mis-decoded (C03/C05)', {'text': text}
    sym, detail, m2 = check_grid(g, m1)
    return sym, detail, {'text': text, 'm2': m2, 'trace': w.trace}


def report(ctx, n, m1, seed, sym, detail):
    # bound the effort on a badly broken tree: after 8 minimised reports of one symptom in this shard the further
    # occurrences are only counted (they would collapse into the same signatures anyway)
    key = 'minimised reports: ' + sym.split(':')[0]
    if ctx.counters[key] >= 8:
        ctx.count('further occurrences not minimised: ' + sym.split(':')[0])
        return
    ctx.count(key)

    def fails(g):
        return judge([g], m1, seed, {})[0]
    canon = judge([n], m1, seed, {})[0] == sym
    n_min, culprits = n, []
    if canon:
        try:
            n_min, culprits = M.minimise(n, fails, sym)
        except Exception:
            pass
    s1, d1, art = judge([n_min], m1, seed, {} if canon else None)
    if s1 != sym:
        n_min, culprits = n, []
        s1, d1, art = judge([n], m1, seed, None)
    feats = {'m1=' + m1, 'm2=' + str(art.get('m2'))}
    if not canon:
        feats.add('needs-noncanonical-spelling')
    sig = M.signature('%s>%s' % (m1, art.get('m2')), 'transcode', n_min, culprits, sym, feats)
    ctx.violation(sig, '%s: %s | source document %r' % (sym, d1 or detail, art['text'][:300]),
                  {'n': D.enc(n_min), 'm1': m1, 'seed': seed, 'canonical': canon})


def shards(tier, seed):
    out = [{'part': 'repo-tests'}]
    nz, nj = (320, 480) if tier == 'quick' else (12000, 18000)
    kz, kj = (8, 8) if tier == 'quick' else (24, 24)
    for i in range(kz):
        out.append({'part': 'docs', 'm1': 'zinc', 'n': nz // kz + 1, 'sub': i})
    for i in range(kj):
        out.append({'part': 'docs', 'm1': 'json', 'n': nj // kj + 1, 'sub': i})
    # one parsed grid dumped by two threads at once (reading a grid from several threads is sharing nothing but the grid)
    out.append({'part': 'threads', 'bound': 1 if tier == 'quick' else 2, 'cap': 500 if tier == 'quick' else 4000})
    if tier == 'thorough':
        for hseed in (1, 2, 3, 4, 5, 6, 7, 8):
            out.append({'part': 'hashseed', 'n': 300, 'env': {'PYTHONHASHSEED': str(hseed)}, 'hseed': hseed})
    else:
        for hseed in (1, 2):
            out.append({'part': 'hashseed', 'n': 60, 'env': {'PYTHONHASHSEED': str(hseed)}, 'hseed': hseed})
    return out


def run_shard(spec, ctx):
    import hszinc
    if spec['part'] == 'repo-tests':
        from vf import contracts
        contracts.repo_tests_shard(ctx, ['dump-pure'], PROP)
        return
    if spec['part'] == 'threads':
        from vf import threads as T
        r = random.Random(ctx.seed * 1000003 + 777)
        gen = D.Gen(r)
        docs = []
        while len(docs) < 3:
            n = gen.grid(r.choice(['2.0', '3.0']), small=True, maxcols=3, maxrows=2)
            if not c03.expressible(n) or len({x[0] for _, x in D.walk(n, 'top')}) < 4:
                continue
            _, text = c03.build_doc([n], 7, None, True, 'str')
            try:
                g = hszinc.parse(text, mode=hs.ZINC)
                hszinc.dump(g, mode=hs.ZINC), hszinc.dump(g, mode=hs.JSON)
            except Exception:
                continue
            docs.append(text)
        for di, text in enumerate(docs):
            def make_jobs(text=text):
                g = hszinc.parse(text, mode=hs.ZINC)         # one grid object for both threads

                def job():
                    return (hszinc.dump(g, mode=hs.ZINC), hszinc.dump(g, mode=hs.JSON), hszinc.dump([g, g], mode=hs.JSON))
                return [job, job]
            T.explore(ctx, 'same-grid-dumped-twice/%d' % di, make_jobs, spec['bound'], spec['cap'],
                      {'part': 'schedule', 'format': 'transcode', 'position': 'document', 'kind': 'grid'}, {'threads_doc': text})
        ctx.count('thread-schedule documents', len(docs))
        return
    if spec['part'] == 'hashseed':
        # same documents in every process (seeded independently of the hash seed); texts are digested and
        # compared across processes by the parent
        r = random.Random(ctx.seed * 1000003 + 707)
        gen = D.Gen(r)
        gen.zoneless = 0.3
        for i in range(spec['n']):
            n = gen.grid(r.choice(['2.0', '3.0']), maxcols=4, maxrows=4)
            if not c03.expressible(n):
                continue
            seed = r.getrandbits(40)
            for m1 in ('zinc', 'json'):
                try:
                    if m1 == 'zinc':
                        _, text = c03.build_doc([n], seed, None, True, 'str')
                    else:
                        from vf import refjson
                        text = json.dumps(refjson.Writer(random.Random(seed)).doc([n], array=False))
                    g = hszinc.parse(text, mode=MODES[m1])
                    outs = [hszinc.dump(g, mode=MODES[m2]) for m2 in ('zinc', 'json')]
                except Exception:
                    outs = ['<error>']
                dig = hashlib.sha1('\x00'.join(outs).encode('utf-8', 'surrogatepass')).hexdigest()[:12]
                ctx.count('digest %d %s %s' % (i, m1, dig))
                ctx.case('hashseed', spec['hseed'], i, m1)
        ctx.count('hash seeds swept')
        return
    m1 = spec['m1']
    r = random.Random(ctx.seed * 1000003 + 700 + spec['sub'] + (1000 if m1 == 'json' else 0))
    gen = D.Gen(r)
    gen.zoneless = 0.3
    for i in range(spec['n']):
        if i % 4 == 3:
            # a whole document of 0, 2 or 3 grids, as parse(.., single=False) returns it
            ns = [gen.grid(r.choice(['2.0', '3.0']), small=True) for _ in range(r.choice([0, 2, 2, 3]))]
            seed = r.getrandbits(48)
            if all(c03.expressible(x) for x in ns):
                sym, detail, art = judge_doc(ns, m1, seed)
                ctx.case(art['text'], m1, 'doc')
                if sym == 'skip':
                    ctx.count('skipped: ' + detail)
                else:
                    ctx.count('multi-grid documents checked (%s)' % m1)
                    ctx.cls('document', m1, 'grids=%d' % len(ns))
                    if sym:
                        ctx.violation({'part': '%s>%s' % (m1, art.get('m2')), 'format': 'transcode', 'position': 'document', 'kind': 'grids',
                                       'symptom': sym, 'features': ['grids=%d' % len(ns)]},
                                      '%s: %s | source document %r' % (sym, detail, art['text'][:300]),
                                      {'doc': [D.enc(x) for x in ns], 'm1': m1, 'seed': seed})
        # parser-made version objects: also spellings with other than two numeric groups (2 == 2.0 == 2.0.0)
        n = gen.grid(r.choice(['2.0', '3.0', '3.0', '3', '2', '3.0.0', '2.0.0', '3.00']), maxcols=4, maxrows=5)
        if not c03.expressible(n):
            continue
        seed = r.getrandbits(48)
        sym, detail, art = judge([n], m1, seed)
        ctx.case(art['text'], m1)
        if sym == 'skip':
            ctx.count('skipped: ' + detail)
            continue
        ctx.count('parsed grids checked (%s)' % m1)
        ctx.count('dump/reparse chains', 6)
        for pos, x in D.walk(n, 'top'):
            if x[0] == 'dt':
                ctx.cls('dt', 'zone-less' if x[3] is None else 'zoned', m1)
        ctx.cls('source', m1, 'ver=' + str(n[1]))
        if sym:
            report(ctx, n, m1, seed, sym, detail)
        elif i == 0:
            ctx.sample({'m1': m1, 'document': art['text'][:400]})


def replay(case, ctx):
    if 'threads_doc' in case:
        import hszinc
        from vf import threads as T

        def make_jobs():
            g = hszinc.parse(case['threads_doc'], mode=hs.ZINC)

            def job():
                return (hszinc.dump(g, mode=hs.ZINC), hszinc.dump(g, mode=hs.JSON), hszinc.dump([g, g], mode=hs.JSON))
            return [job, job]
        T.replay(ctx, 'same-grid-dumped-twice', make_jobs, case.get('overrides', []),
                 {'part': 'schedule', 'format': 'transcode', 'position': 'document', 'kind': 'grid'}, case)
        return
    if 'doc' in case:
        ns = [D.dec(x) for x in case['doc']]
        sym, detail, art = judge_doc(ns, case['m1'], case['seed'])
        if sym and sym != 'skip':
            ctx.violation({'part': '%s>%s' % (case['m1'], art.get('m2')), 'format': 'transcode', 'position': 'document', 'kind': 'grids',
                           'symptom': sym, 'features': ['grids=%d' % len(ns)]}, '%s: %s' % (sym, detail), case)
        return
    n = D.dec(case['n'])
    sym, detail, art = judge([n], case['m1'], case['seed'], {} if case.get('canonical') else None)
    if sym and sym != 'skip':
        report(ctx, n, case['m1'], case['seed'], sym, detail)


def finish(ctx, merged):
    c = merged['counters']
    if c.get('parsed grids checked (zinc)', 0) < 200 or c.get('parsed grids checked (json)', 0) < 300:
        ctx.inconclusive.append('too few parsed grids checked')
    if c.get('multi-grid documents checked (zinc)', 0) < 20 or c.get('multi-grid documents checked (json)', 0) < 20:
        ctx.inconclusive.append('too few multi-grid documents checked')
    # cross-process determinism
    by = {}
    for k in list(c):
        if k.startswith('digest '):
            _, i, m1, dig = k.split()
            by.setdefault((i, m1), set()).add(dig)
            del c[k]
    bad = [k for k, v in by.items() if len(v) > 1]
    c['documents compared across hash seeds'] = len(by)
    if bad:
        key = 'C07/determinism/-/document/-/{}/dump-differs-across-hash-seeds'
        merged['violations'][key] = {'sig': {'part': 'determinism', 'position': 'document', 'symptom': 'dump-differs-across-hash-seeds',
                                             'features': []}, 'key': key,
                                     'what': 'dump text of %d documents differs between PYTHONHASHSEED values, e.g. %r' % (len(bad), bad[:3]),
                                     'case': {'docs': bad[:5]}, 'n': len(bad)}
    if c.get('hash seeds swept', 0) < 2:
        ctx.inconclusive.append('hash seed sweep did not run')
