"""C02 - JSON round trip: parse(dump(g)) is g for every Haystack-valid grid."""
import json
import sys

from vf import domain as D
from vf import hs, rt, rtdriver
from vf.refzinc import ver_lt3

PROP = 'C02'
FMT = 'json'
RULE = ('real hszinc.dump(MODE_JSON) -> hszinc.parse round trips compared with an own kind-aware comparator (numbers, '
        'quantities, coordinates to six decimals, everything else exact). Workloads as C01 (catalogue as scalars, every '
        'value in every position, seeded random grids, documents of 0-3 grids). Every dumped text is parsed in five input '
        'forms (str, utf-8 bytes, utf-16 bytes, latin-1 bytes, pre-decoded object) and the spelling of Remove in the dump is '
        'checked against the grid version. distinct = the case; all non-trivial')
ASSUME = ['vf.domain.diff with the six-decimal rule', 'json module of the standard library', 'value domain of DESIGN.md 2.1']
_me = sys.modules[__name__]


def in_domain(n):
    return True


def remove_spelling(obj):
    """x: under 2.0, -: under 3.0 - checked per (possibly nested) grid object."""
    bad = []

    def scan(v, want, other):
        if isinstance(v, str):
            if v == other:
                bad.append((v, want))
        elif isinstance(v, list):
            for x in v:
                scan(x, want, other)
        elif isinstance(v, dict):
            if {'meta', 'cols', 'rows'} <= set(v.keys()):
                grid(v)
            else:
                for x in v.values():
                    scan(x, want, other)

    def grid(g):
        ver = g['meta'].get('ver')
        want, other = ('x:', '-:') if ver_lt3(ver) else ('-:', 'x:')
        for k, v in g['meta'].items():
            if k != 'ver':
                scan(v, want, other)
        for c in g['cols']:
            for k, v in c.items():
                if k != 'name':
                    scan(v, want, other)
        for r in g['rows']:
            for v in r.values():
                scan(v, want, other)
    for g in (obj if isinstance(obj, list) else [obj]):
        grid(g)
    return bad


FORMS = ['str', 'bytes-utf8', 'bytes-utf16', 'bytes-latin1', 'object']


def parse_form(hszinc, text, form, **kw):
    if form == 'str':
        return hszinc.parse(text, mode=hs.JSON, **kw)
    if form == 'bytes-utf8':
        return hszinc.parse(text.encode('utf-8'), mode=hs.JSON, charset='utf-8', **kw)
    if form == 'bytes-utf16':
        return hszinc.parse(text.encode('utf-16'), mode=hs.JSON, charset='utf-16', **kw)
    if form == 'bytes-latin1':
        return hszinc.parse(text.encode('latin-1'), mode=hs.JSON, charset='latin-1', **kw)
    return hszinc.parse(json.loads(text), mode=hs.JSON, **kw)


def judge_grid(n):
    import hszinc
    art = {}
    try:
        g = hs.to_grid(n)
    except Exception as e:
        return 'build-raises:' + type(e).__name__, str(e)[:200], art
    exp = rt.expected_of(n, g)
    try:
        text = hszinc.dump(g, mode=hs.JSON)
    except Exception as e:
        return 'dump-raises:' + type(e).__name__, str(e)[:200], art
    art['text'] = text
    try:
        obj = json.loads(text)
        bad = remove_spelling(obj)
    except Exception as e:
        return 'dump-not-json:' + type(e).__name__, str(e)[:200], art
    if bad:
        return 'remove-spelling', 'Remove spelled %r where the version wants %r' % bad[0], art
    for form in FORMS:
        suffix = '' if form == 'str' else '@' + form
        try:
            back = parse_form(hszinc, text, form)
        except Exception as e:
            return 'parse-raises:' + type(e).__name__ + suffix, str(e)[:300], art
        if not isinstance(back, hszinc.Grid):
            return 'parse-returned:' + type(back).__name__ + suffix, '', art
        d = D.grid_diff(exp, hs.from_grid(back), True)
        if d:
            art['path'] = d[0]
            return d[1] + suffix, '%s: %s' % (d[0], d[2]), art
    return None, '', art


def judge_scalar(n, ver):
    return rt.scalar_rt(n, hs.JSON, ver, True)


def judge_multi(ns, single):
    import hszinc
    art = {}
    gs = [hs.to_grid(n) for n in ns]
    exps = [rt.expected_of(n, g) for n, g in zip(ns, gs)]
    try:
        text = hszinc.dump(gs, mode=hs.JSON)
        json.loads(text)
    except Exception as e:
        return 'dump-raises:' + type(e).__name__, str(e)[:200], art
    art['text'] = text
    for form in ('str', 'object', 'bytes-utf8'):
        suffix = '' if form == 'str' else '@' + form
        try:
            back = parse_form(hszinc, text, form, single=single)
        except Exception as e:
            return 'parse-raises:' + type(e).__name__ + suffix, str(e)[:300], art
        if single:
            if not ns:
                if back is not None:
                    return 'shape-changed' + suffix, 'empty array with single=True gave %r' % (back,), art
                continue
            back = [back]
            e2 = exps[:1]
        else:
            e2 = exps
        if not isinstance(back, list) or len(back) != len(e2) or not all(isinstance(b, hszinc.Grid) for b in back):
            return 'shape-changed' + suffix, 'dumped %d grids, got %r' % (len(ns), back if not isinstance(back, list) else len(back)), art
        for i, (e, b) in enumerate(zip(e2, back)):
            d = D.grid_diff(e, hs.from_grid(b), True)
            if d:
                return d[1] + suffix, 'grid %d %s: %s' % (i, d[0], d[2]), art
    return None, '', art


def shards(tier, seed):
    return rtdriver.shards(tier, seed, quick_grids=6000, thorough_grids=300000)


def run_shard(spec, ctx):
    rtdriver.run_shard(_me, spec, ctx)
    if spec['part'] == 'grids':
        ctx.count('input forms per dumped text', len(FORMS))


def replay(case, ctx):
    rtdriver.replay(_me, case, ctx)


def finish(ctx, merged):
    c = merged['counters']
    for key, least in (('scalar round trips', 500), ('position round trips', 2000), ('grid round trips', 4000),
                       ('multi-grid round trips', 100)):
        if c.get(key, 0) < least:
            ctx.inconclusive.append('%s: %d < %d' % (key, c.get(key, 0), least))
