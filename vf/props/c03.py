"""C03 - the ZINC reader accepts the whole surface syntax and decodes it correctly."""
import random
import sys

from vf import domain as D
from vf import hs
from vf import minimize as M
from vf import refzinc

PROP = 'C03'
RULE = ('documents written by an independent grammar-directed writer (vf/refzinc.Writer: one independently chosen legal '
        'spelling per token - separators with blanks, empty cell vs N, digit separators, exponent forms, INF/-INF/NaN, raw / '
        'short / \\uXXXX escapes with upper/lower hex, \\$, URI backslash escapes, LF vs CRLF, list/dict blanks and trailing '
        'commas, T/t, Z/z/+00:00, fraction lengths, zone name present or absent, bare vs explicit markers, final newline '
        'present or absent, 0-3 grids per document, str or bytes in utf-8/utf-16/latin-1/ascii) are parsed by the real '
        'hszinc.parse with single in {True, False}; the result is compared with the grid the writer started from. Failing '
        'documents are minimised (grid, then spelling choices). distinct = document text; non-trivial = at least one '
        'non-canonical spelling choice')
ASSUME = ['vf/refzinc.Writer only emits spellings derivable from DESIGN.md Appendix A.1', 'not generated (arguable): several '
          'blanks between tags, blanks after a dict colon, commas inside dicts, the URI escape \\#, \\U escapes, >6 fraction '
          'digits, units starting with "_", blanks at the very start of a header/column line',
          'the denoted grid is the writer\'s input, never anything hszinc produced']
_me = sys.modules[__name__]

CHARSETS = ['str', 'utf-8', 'utf-16', 'latin-1', 'ascii']


def expressible(n):
    for _, x in D.walk(n, 'top'):
        if x[0] == 'dt' and x[2] % 60:
            return False
        if x[0] == 'num' and x[2] is not None and isinstance(x[1], float) and (x[1] != x[1] or x[1] in (float('inf'), float('-inf'))):
            return False
    return True


def has_surrogate(text):
    return any(0xd800 <= ord(c) <= 0xdfff for c in text)


def build_doc(ns, seed, script=None, final_newline=True, charset='str'):
    policy = None
    if isinstance(script, dict):
        policy, script = script, None
    w = refzinc.Writer(random.Random(seed), allow_raw_nonascii=charset not in ('ascii',), script=script, policy=policy)
    text = w.doc(ns, final_newline=final_newline)
    return w, text


def encode(text, charset):
    if charset == 'str':
        return text, {}
    try:
        return text.encode(charset), {'charset': charset}
    except UnicodeEncodeError:
        return None, None


def judge_doc(ns, seed, script, final_newline, charset, single):
    """Returns (symptom|None, detail, artefacts)."""
    import hszinc
    w, text = build_doc(ns, seed, script, final_newline, charset)
    art = {'text': text, 'trace': w.trace, 'log': w.log}
    data, kw = encode(text, charset)
    if data is None:
        return None, 'not encodable', art
    try:
        back = hszinc.parse(data, mode=hs.ZINC, single=single, **kw)
    except Exception as e:
        return 'parse-raises:' + type(e).__name__, str(e)[:200], art
    if single:
        if not ns:
            return (None, '', art) if back is None else ('shape-changed', 'empty document, single=True gave %r' % (back,), art)
        if not isinstance(back, hszinc.Grid):
            return 'shape-changed', 'single=True returned %s' % type(back).__name__, art
        pairs = [(ns[0], back)]
    else:
        if not isinstance(back, list) or len(back) != len(ns):
            return 'shape-changed', 'document holds %d grids, parse returned %r' % (
                len(ns), len(back) if isinstance(back, list) else type(back).__name__), art
        pairs = list(zip(ns, back))
    for i, (n, b) in enumerate(pairs):
        try:
            got = hs.from_grid(b)
        except Exception as e:
            return 'result-unreadable:' + type(e).__name__, str(e)[:100], art
        d = D.grid_diff(n, got, False)
        if d:
            art['path'] = d[0]
            return d[1], 'grid %d %s: %s' % (i, d[0], d[2]), art
    return None, '', art


def report(ctx, ns, seed, final_newline, charset, single, sym, detail):
    # bound the effort on a badly broken tree: after 8 minimised reports of one symptom in this shard the further
    # occurrences are only counted (they would collapse into the same signatures anyway)
    key = 'minimised reports: ' + sym.split(':')[0]
    if ctx.counters[key] >= 8:
        ctx.count('further occurrences not minimised: ' + sym.split(':')[0])
        return
    ctx.count(key)

    # 1. fewer grids
    cur = list(ns)
    for i in range(len(cur) - 1, -1, -1):
        c = cur[:i] + cur[i + 1:]
        if judge_doc(c, seed, None, final_newline, charset, single)[0] == sym:
            cur = c
    # 2. document-level dimensions back to canonical when the symptom stays
    if not final_newline and judge_doc(cur, seed, None, True, charset, single)[0] == sym:
        final_newline = True
    if charset != 'str' and judge_doc(cur, seed, None, final_newline, 'str', single)[0] == sym:
        charset = 'str'
    # 3. minimise the spelling choices on the full document: back to canonical when the symptom stays
    s0, d0, art = judge_doc(cur, seed, None, final_newline, charset, single)
    script = [i for _, i, _ in art['trace']]
    budget = 600
    for i in range(len(script)):
        if script[i] == 0 or budget <= 0:
            continue
        budget -= 1
        trial = script[:i] + [0] + script[i + 1:]
        if judge_doc(cur, seed, trial, final_newline, charset, single)[0] == sym:
            script = trial
    s1, d1, art1 = judge_doc(cur, seed, script, final_newline, charset, single)
    # 4. a uniform policy made of the surviving choices is stable under content shrinking
    policy = {}
    for dim, i, o in art1['trace']:
        if i != 0:
            policy.setdefault(dim, o)
    if judge_doc(cur, seed, policy, final_newline, charset, single)[0] == sym:
        script = policy
        for gi in range(len(cur)):
            def fails(g):
                c = cur[:gi] + [g] + cur[gi + 1:]
                return judge_doc(c, seed, policy, final_newline, charset, single)[0]
            try:
                g2, _ = M.minimise(cur[gi], fails, sym)
                cur[gi] = g2
            except Exception:
                pass
        # drop policy entries that are not needed any more
        for dim in sorted(policy):
            trial = dict((k, v) for k, v in policy.items() if k != dim)
            if judge_doc(cur, seed, trial, final_newline, charset, single)[0] == sym:
                policy = trial
        script = policy
        s1, d1, art1 = judge_doc(cur, seed, policy, final_newline, charset, single)
    feats = set('%s=%s' % (dim, o) for (dim, i, o) in art1['trace'] if i != 0)
    if not final_newline:
        feats.add('final-newline=absent')
    if charset != 'str':
        feats.add('charset=' + charset)
    if len(cur) != 1:
        feats.add('grids=%d' % len(cur))
    if not single:
        feats.add('single=False')
    culprits = []
    for g in cur:
        culprits += [(p, v) for p, v in M.sites(g) if v != M.SENT and v[0] not in ('list', 'dict', 'grid')]
    if len(culprits) == 1:
        pos, kind = M.position_of(culprits[0][0]), D.kind(culprits[0][1])
        feats |= set(D.features(culprits[0][1]))
    elif not culprits:
        pos, kind = 'structure', '-'
    else:
        pos, kind = 'multi', '+'.join(sorted({D.kind(v) for _, v in culprits}))
    for g in cur[:1]:
        feats.add('ver=' + str(g[1]))
    ctx.violation({'part': 'spelling', 'format': 'zinc', 'position': pos, 'kind': kind, 'symptom': sym, 'features': sorted(feats)},
                  '%s: %s | document %r' % (sym, d1, art1['text'][:400]),
                  {'ns': [D.enc(g) for g in cur], 'seed': seed, 'script': script, 'final_newline': final_newline,
                   'charset': charset, 'single': single})


def shards(tier, seed):
    n = 4000 if tier == 'quick' else 150000
    k = 16 if tier == 'quick' else 48
    return [{'part': 'docs', 'n': n // k + 1, 'sub': i} for i in range(k)] + [{'part': 'fixed'}] + \
        [{'part': 'reread', 'n': 300 if tier == 'quick' else 6000}] + \
        [{'part': 'cold-start', 'rounds': 10 if tier == 'quick' else 100}]


def reread_part(spec, ctx):
    """The same text read twice: the caller does what it likes with the first result (here: wrecks every mutable part of
    it), the second reading still gives the value the text denotes - at document level and at scalar level."""
    import hszinc
    r = random.Random(ctx.seed * 1000003 + 3131)
    gen = D.Gen(r)
    W = refzinc.Writer(None)
    W.v3 = True
    for i in range(spec['n']):
        if i % 2 == 0:
            n = gen.value(True, kinds=['list', 'dict', 'grid', 'xstr'])
            if not all(expressible_value(x) for _, x in D.walk(n, 'top')):
                continue
            try:
                text = W.val(n)
            except Exception:
                continue
            kw = [{}, {'charset': 'utf-8'}][i % 4 // 2]
            data = text.encode('utf-8') if kw else text
            ctx.case('reread-scalar', text)
            try:
                first = hszinc.parse_scalar(data, mode=hs.ZINC, version='3.0', **kw)
                if D.diff(n, hs.from_hs(first), False):
                    ctx.count('first reading already differs (the document workloads report it)')
                    continue
                hs.wreck(first)
                second = hszinc.parse_scalar(data, mode=hs.ZINC, version='3.0', **kw)
                d = D.diff(n, hs.from_hs(second), False)
            except Exception as e:   # noqa
                d = ('', 'reread-raises:' + type(e).__name__, str(e)[:120])
            ctx.count('scalars read twice')
            if d:
                ctx.violation({'part': 'history', 'format': 'zinc', 'position': 'scalar', 'kind': D.kind(n), 'symptom': 'second-reading-differs',
                               'features': ['entry=parse_scalar']},
                              'parse_scalar(%r) read again after the caller changed the first result: %s: %s' % (text[:200], d[1], d[2]),
                              {'reread_scalar': D.enc(n)})
                return
        else:
            g = gen.grid('3.0', small=True)
            if not expressible(g):
                continue
            text = refzinc.Writer(None).doc([g])
            ctx.case('reread-doc', text)
            try:
                first = hszinc.parse(text, mode=hs.ZINC)
                if D.grid_diff(g, hs.from_grid(first), False):
                    continue
                hs.wreck(first)
                second = hszinc.parse(text, mode=hs.ZINC)
                d = D.grid_diff(g, hs.from_grid(second), False)
            except Exception as e:   # noqa
                d = ('', 'reread-raises:' + type(e).__name__, str(e)[:120])
            ctx.count('documents read twice')
            if d:
                ctx.violation({'part': 'history', 'format': 'zinc', 'position': 'document', 'kind': 'grid', 'symptom': 'second-reading-differs',
                               'features': ['entry=parse']},
                              'a document read again after the caller changed the first result: %s: %s | text %r' % (d[1], d[2], text[:200]),
                              {'reread_doc': D.enc(g)})
                return
    ctx.sample({'reread': 'parse / parse_scalar twice, first result wrecked in between'})


def expressible_value(x):
    return expressible(('grid', '3.0', (), (('a', ()),), ((('a', x),),))) if x[0] != 'grid' else expressible(x)


FIXED = [
    # (text, single, expectation) - corner documents named in the property statement
    ('', True, None), ('', False, []), ('\n', True, None), ('\n', False, []),
]


def cold_start_part(spec, ctx):
    """The process's first zone lookups, from six threads at once, are readings of documents with named zones."""
    import pytz
    from vf.props import c17

    def work(Z, tz, t):
        loc = pytz.utc.localize(t).astimezone(tz)
        n = ('dt', (loc.year, loc.month, loc.day, loc.hour, loc.minute, loc.second, loc.microsecond),
             int(loc.utcoffset().total_seconds()), Z)
        g = ('grid', '3.0', (('when', n),), (('ts', ()),), ((('ts', n),),))
        sym, detail, art = judge_doc([g], 11, None, True, 'str', True)
        return [(sym, '%s | text %r' % (detail, art['text'][:160])) if sym else None]
    c17.cold_start(spec, ctx, work, {'part': 'cold-start', 'format': 'zinc', 'position': 'cell', 'kind': 'dt'})


def run_shard(spec, ctx):
    if spec['part'] == 'cold-start':
        return cold_start_part(spec, ctx)
    import hszinc
    if spec['part'] == 'reread':
        return reread_part(spec, ctx)
    if spec['part'] == 'fixed':
        for text, single, exp in FIXED:
            for data in (text, text.encode('utf-8')):
                ctx.case('fixed', text, single, type(data).__name__)
                ctx.count('fixed corner documents')
                try:
                    got = hszinc.parse(data, mode=hs.ZINC, single=single)
                    ok = (got is None) if exp is None else (got == exp)
                    why = 'returned %r' % (got,)
                except Exception as e:
                    ok, why = False, 'raised %s' % type(e).__name__
                if not ok:
                    ctx.violation({'part': 'spelling', 'format': 'zinc', 'position': 'document', 'kind': 'empty-input',
                                   'symptom': 'empty-input', 'features': ['single=%s' % single]},
                                  'parse(%r, single=%s) %s; expected %r' % (data, single, why, exp),
                                  {'fixed': text, 'single': single})
        ctx.sample({'fixed': [repr(t) for t, _, _ in FIXED]})
        return
    r = random.Random(ctx.seed * 1000003 + 303 + spec['sub'])
    gen = D.Gen(r)
    gen.zoneless = 0.3
    remembered = []
    for i in range(spec['n']):
        k = r.choice([1, 1, 1, 1, 2, 3, 0]) if i % 5 == 0 else 1
        ns = []
        while len(ns) < k:
            g = gen.grid(r.choice(['2.0', '3.0', '3.0']), small=(k > 1 and r.random() < 0.6))
            if expressible(g):
                ns.append(g)
        seed = r.getrandbits(48)
        final_newline = r.random() < 0.75
        charset = r.choice(CHARSETS)
        single = r.random() < 0.5
        w, text = build_doc(ns, seed, None, final_newline, charset)
        if charset != 'str' and (encode(text, charset)[0] is None):
            charset = 'utf-8' if not has_surrogate(text) else 'str'
            w, text = build_doc(ns, seed, None, final_newline, charset)
            if charset != 'str' and encode(text, charset)[0] is None:
                charset = 'str'
        sym, detail, art = judge_doc(ns, seed, None, final_newline, charset, single)
        nonc = sum(1 for _, idx, _ in art['trace'] if idx != 0)
        ctx.case(art['text'], charset, single, nontrivial=nonc > 0)
        ctx.count('documents parsed')
        ctx.count('spelling choices made', len(art['trace']))
        for key, cnt in art['log'].items():
            ctx.count('choice ' + key, cnt)
            ctx.cls('choice', key)
        ctx.cls('doc', 'charset=' + charset, 'single=%s' % single, 'grids=%d' % len(ns), 'final_nl=%s' % final_newline)
        if sym:
            report(ctx, ns, seed, final_newline, charset, single, sym, detail)
        elif i == 0:
            ctx.sample({'document': art['text'][:600], 'charset': charset, 'single': single})
        if not sym and len(remembered) < 120:
            remembered.append((ns, seed, final_newline, charset, single))
    # history independence: the documents read first are read again, in reverse order, after everything else this
    # process has parsed - whatever the reader remembers between calls must not change what a document means
    for ns, seed, final_newline, charset, single in reversed(remembered):
        sym, detail, art = judge_doc(ns, seed, None, final_newline, charset, single)
        ctx.count('documents re-read at the end of the shard')
        if sym:
            ctx.violation({'part': 'history', 'format': 'zinc', 'position': 'document', 'kind': 'grid', 'symptom': 'reading-depends-on-history',
                           'features': []}, 'a document that was read correctly at the start of the process now gives %s: %s | text %r' % (
                               sym, detail, art['text'][:300]),
                          {'ns': [D.enc(g) for g in ns], 'seed': seed, 'script': None, 'final_newline': final_newline, 'charset': charset,
                           'single': single})
            break


def replay(case, ctx):
    if case.get('cold_start'):
        return cold_start_part({'part': 'cold-start', 'rounds': 30}, ctx)
    import hszinc
    if 'reread_scalar' in case or 'reread_doc' in case:
        return reread_part({'n': 300}, ctx)
    if 'fixed' in case:
        run_shard({'part': 'fixed'}, ctx)
        return
    ns = [D.dec(g) for g in case['ns']]
    sym, detail, art = judge_doc(ns, case['seed'], case.get('script'), case['final_newline'], case['charset'], case['single'])
    if sym:
        report(ctx, ns, case['seed'], case['final_newline'], case['charset'], case['single'], sym, detail)


MIN_PER_CHOICE = 20


def finish(ctx, merged):
    c = merged['counters']
    if c.get('documents parsed', 0) < 3000:
        ctx.inconclusive.append('documents parsed: %d < 3000' % c.get('documents parsed', 0))
    low = [k for k, v in c.items() if k.startswith('choice ') and v < MIN_PER_CHOICE]
    if low:
        ctx.inconclusive.append('spelling choices seen fewer than %d times: %s' % (MIN_PER_CHOICE, ', '.join(sorted(low)[:8])))
    if c.get('fixed corner documents', 0) < 8:
        ctx.inconclusive.append('fixed corner documents not run')
