"""C20 - a Quantity computes and compares as its value."""
import math
import operator
import random

PROP = 'C20'
RULE = ('every operator x every ordered operand pair of the catalogue x operand placement {Q op n, n op Q, '
        'Q op Q same unit, Q op Q other unit}; the oracle is the same operator applied to the bare values in the '
        'same process; results compared by type and repr (nan / -0.0 aware), exceptions by class. distinct = '
        '(operator, placement, left operand, right operand); non-trivial = all of them')
ASSUME = ['CPython numeric tower as the reference semantics', 'basic and pint mode (bool magnitudes left out in pint mode: pint itself refuses them)']

CAT = [0, 1, -1, 2, 7, -3, 2 ** 53, 2 ** 64, 0.5, -0.5, 1e-300, 1e300, float('inf'), float('-inf'),
       float('nan'), True, False, -0.0, 0.0, 3.75, 255, -256,
       2 ** 53 + 1, -(2 ** 63) - 1, 3 ** 40, 10 ** 400, -(10 ** 399), 10 ** 23]   # ints a float cannot hold exactly / at all
SMALL = [0, 1, -1, 2, 7, -3, 63, 0.5, -0.5, True, False, -0.0, 3.75, float('inf'), float('nan')]

BIN = [
    ('add', operator.add), ('sub', operator.sub), ('mul', operator.mul), ('truediv', operator.truediv),
    ('floordiv', operator.floordiv), ('mod', operator.mod), ('divmod', divmod), ('pow', pow),
    ('lshift', operator.lshift), ('rshift', operator.rshift), ('and', operator.and_), ('xor', operator.xor),
    ('or', operator.or_),
]
CMP = [('lt', operator.lt), ('le', operator.le), ('eq', operator.eq), ('ne', operator.ne),
       ('ge', operator.ge), ('gt', operator.gt)]
UNARY = [('neg', operator.neg), ('pos', operator.pos), ('abs', abs), ('invert', operator.invert),
         ('int', int), ('float', float), ('complex', complex)]


def cls_of(x):
    if isinstance(x, bool):
        return 'bool'
    if isinstance(x, int):
        return 'bigint' if abs(x) >= 2 ** 53 else 'int'
    if math.isnan(x):
        return 'nan'
    if math.isinf(x):
        return 'inf'
    return 'float'


def outcome(fn, *args):
    try:
        r = fn(*args)
    except Exception as e:   # noqa - exception class is the observation
        return ('raise', type(e).__name__)
    return ('value', type(r).__name__, repr(r))


def too_big(name, a, b):
    """Operand pairs whose *bare* evaluation would build astronomically large integers."""
    if name in ('lshift',) and isinstance(b, int) and not isinstance(b, bool) and b > 4096:
        return True
    if name == 'pow' and isinstance(a, int) and isinstance(b, int) and abs(int(a)) > 1 and abs(int(b)) > 4096:
        return True
    if name == 'pow' and isinstance(a, int) and isinstance(b, int) and abs(int(a)) > 10 ** 30 and abs(int(b)) > 16:
        return True
    return False


def shards(tier, seed):
    out = [{'part': 'binary', 'extra': 0 if tier == 'quick' else 60},
           {'part': 'compare', 'extra': 0 if tier == 'quick' else 60},
           {'part': 'unary', 'extra': 0 if tier == 'quick' else 400}]
    # the same sweeps with pint quantities switched on (hszinc.use_pint()): Quantity is then also a pint quantity, the
    # operators and conversions are still those of the value (bool magnitudes are refused by pint itself: left out)
    out += [dict(x, pint=True) for x in out]
    return out


def rand_operands(seed, n):
    r = random.Random(seed)
    out = []
    for _ in range(n):
        m = r.random()
        if m < 0.4:
            out.append(r.randint(-1000, 1000))
        elif m < 0.5:
            out.append(r.randint(-2 ** 70, 2 ** 70))
        elif m < 0.9:
            out.append(r.uniform(-1e3, 1e3))
        else:
            out.append(r.uniform(-1, 1) * 10 ** r.randint(-300, 300))
    return out


def _viol(ctx, opname, mode, a, b, exp, got, third=None):
    ctx.violation({'part': 'law', 'kind': 'qty', 'symptom': 'differs:' + ('exception' if 'raise' in (exp[0], got[0]) else 'result'),
                   'features': ['op=' + opname, 'placement=' + mode]},
                  '%s %s: operands %r, %r%s: bare values give %r, Quantity gives %r' % (
                      opname, mode, a, b, '' if third is None else ', mod %r' % (third,), exp, got),
                  {'pint': PINT_TAG == 'pint', 'op': opname, 'mode': mode, 'a': repr(a), 'b': repr(b), 'third': repr(third)})


def eval_case(ctx, Q, opname, fn, mode, a, b, third=None):
    extra = () if third is None else (third,)
    exp = outcome(fn, a, b, *extra)
    if mode == 'QN':
        got = outcome(fn, Q(a, 'kg'), b, *extra)
    elif mode == 'NQ':
        got = outcome(fn, a, Q(b, 'kg'), *extra)
    elif mode == 'QQ':
        got = outcome(fn, Q(a, 'kg'), Q(b, 'kg'), *extra)
    elif mode == 'QQ-right-unitless':
        got = outcome(fn, Q(a, 'kg'), Q(b, None), *extra)
    elif mode == 'QQ-left-unitless':
        got = outcome(fn, Q(a, None), Q(b, '%'), *extra)
    else:
        got = outcome(fn, Q(a, 'kg'), Q(b, '%'), *extra)
    ctx.case(PINT_TAG, opname, mode, repr(a), repr(b), repr(third))
    ctx.cls(opname, mode, cls_of(a), cls_of(b))
    ctx.count('exceptions matched by class' if exp[0] == 'raise' and got == exp else 'results compared')
    if got != exp:
        _viol(ctx, opname, mode, a, b, exp, got, third)
    return exp, got


PINT_TAG = 'basic'


class _Unbuildable(Exception):
    pass


def run_shard(spec, ctx):
    import hszinc
    global CAT, SMALL, PINT_TAG
    Q = hszinc.Quantity
    if spec.get('pint'):
        import warnings
        warnings.simplefilter('ignore')
        hszinc.use_pint(True)
        if type(hszinc.Quantity(1, 'kg')).__name__ != 'PintQuantity':
            ctx.inconc('pint mode could not be switched on')
            return
        CAT = [x for x in CAT if not isinstance(x, bool)]
        SMALL = [x for x in SMALL if not isinstance(x, bool)]
        PINT_TAG = 'pint'
        ctx.count('pint-mode shards')
        ctx.cls('mode', 'pint')
    extra = rand_operands(ctx.seed * 1000003 + 5, spec['extra'])
    part = spec['part']
    if part == 'binary':
        for name, fn in BIN:
            rights = SMALL if name in ('lshift', 'pow') else CAT
            for a in CAT + extra:
                for b in rights + (extra if name not in ('lshift', 'pow') else []):
                    if too_big(name, a, b):
                        ctx.count('skipped (bare evaluation too large)')
                        continue
                    for mode in ('QN', 'NQ', 'QQ', 'QQdiff', 'QQ-right-unitless', 'QQ-left-unitless'):
                        eval_case(ctx, Q, name, fn, mode, a, b)
        # 3-argument pow with a plain modulus (reflected forms do not exist for 3-arg pow)
        for a in CAT:
            for b in SMALL:
                for m in (7, 1, 0, -5, 2 ** 31, 0.5):
                    if too_big('pow', a, b):
                        continue
                    eval_case(ctx, Q, 'pow3', pow, 'QN', a, b, m)
                    eval_case(ctx, Q, 'pow3', pow, 'QQ', a, b, m)
        # the reflected methods entered with a Quantity on both sides (a subclass that overrides them gets there through
        # Python's dispatch; here they are called directly): q.__rsub__(p) is p - q
        refl = {'add': '__radd__', 'sub': '__rsub__', 'mul': '__rmul__', 'truediv': '__rtruediv__', 'floordiv': '__rfloordiv__',
                'mod': '__rmod__', 'divmod': '__rdivmod__', 'pow': '__rpow__', 'lshift': '__rlshift__', 'rshift': '__rrshift__',
                'and': '__rand__', 'xor': '__rxor__', 'or': '__ror__'}
        for name, fn in BIN:
            meth = refl[name]
            for a in SMALL:
                for b in SMALL:
                    if too_big(name, b, a):
                        continue
                    exp = outcome(fn, b, a)
                    for label, qa, qb in (('same-unit', Q(a, 'kg'), Q(b, 'kg')), ('right-unitless', Q(a, 'kg'), Q(b, None))):
                        try:
                            m = getattr(qa, meth)
                        except AttributeError:
                            continue
                        got = outcome(m, qb)
                        if got == ('value', 'NotImplementedType', 'NotImplemented'):
                            ctx.count('reflected method declined (NotImplemented)')
                            continue
                        ctx.case(PINT_TAG, name, 'reflected-' + label, repr(a), repr(b))
                        ctx.count('reflected methods called with a Quantity on both sides')
                        if got != exp:
                            _viol(ctx, name, 'reflected-QQ', b, a, exp, got)
        ctx.sample({'op': 'divmod', 'mode': 'NQ', 'a': 7, 'b': -3, 'bare': outcome(divmod, 7, -3),
                    'quantity': outcome(divmod, 7, Q(-3, 'kg'))})
        ctx.sample({'op': 'lshift', 'mode': 'QN', 'a': 1, 'b': 0.5, 'bare': outcome(operator.lshift, 1, 0.5),
                    'quantity': outcome(operator.lshift, Q(1, 'kg'), 0.5)})
    elif part == 'compare':
        for name, fn in CMP:
            for a in CAT + extra:
                for b in CAT + extra:
                    for mode in ('QN', 'NQ', 'QQ'):
                        eval_case(ctx, Q, name, fn, mode, a, b)
                    # a Quantity without unit against one with a unit: the units differ -> TypeError, both ways
                    for label, qa, qb in (('QQ-right-unitless', Q(a, 'kg'), Q(b, None)), ('QQ-left-unitless', Q(a, None), Q(b, 'kg'))):
                        g2 = outcome(fn, qa, qb)
                        ctx.case(PINT_TAG, name, label, repr(a), repr(b))
                        ctx.count('unit-mismatch comparisons')
                        if g2 != ('raise', 'TypeError'):
                            _viol(ctx, name, label, a, b, ('raise', 'TypeError'), g2)
                    # two unitless quantities compare as their values
                    g3 = outcome(fn, Q(a, None), Q(b, None))
                    if g3 != outcome(fn, a, b):
                        _viol(ctx, name, 'QQ-both-unitless', a, b, outcome(fn, a, b), g3)
                    # different units: TypeError, always
                    got = outcome(fn, Q(a, 'kg'), Q(b, 'm'))
                    ctx.case(PINT_TAG, name, 'QQdiff', repr(a), repr(b))
                    ctx.cls(name, 'QQdiff', cls_of(a), cls_of(b))
                    ctx.count('unit-mismatch comparisons')
                    if got != ('raise', 'TypeError'):
                        _viol(ctx, name, 'QQdiff', a, b, ('raise', 'TypeError'), got)
                    # unit None vs unit: still "units differ"
        ctx.sample({'op': 'lt', 'mode': 'QQdiff', 'a': 1, 'b': 2, 'quantity': outcome(operator.lt, Q(1, 'kg'), Q(2, 'm'))})
        ctx.sample({'op': 'eq', 'mode': 'NQ', 'a': 'nan', 'b': 'nan',
                    'quantity': outcome(operator.eq, float('nan'), Q(float('nan'), 'kg'))})
    elif part == 'unary':
        for name, fn in UNARY:
            for a in CAT + extra:
                for u in ('kg', '%', None, u'°C'):
                    exp = outcome(fn, a)
                    got = outcome(fn, Q(a, u))
                    ctx.case(PINT_TAG, name, repr(a), u)
                    ctx.cls(name, 'unary', cls_of(a))
                    ctx.count('unary/conversion compared')
                    if got != exp:
                        ctx.violation({'part': 'law', 'kind': 'qty', 'symptom': 'differs:' + (
                            'exception' if 'raise' in (exp[0], got[0]) else 'result'),
                            'features': ['op=' + name, 'placement=unary']},
                            '%s(Quantity(%r, %r)) gives %r, %s(%r) gives %r' % (name, a, u, got, name, a, exp),
                            {'pint': PINT_TAG == 'pint', 'op': name, 'mode': 'unary', 'a': repr(a), 'b': repr(u)})
        ctx.sample({'op': 'int', 'a': 'inf', 'bare': outcome(int, float('inf')), 'quantity': outcome(int, Q(float('inf'), 'kg'))})


def _lit(s):
    return eval(s, {'inf': float('inf'), 'nan': float('nan')})


def replay(case, ctx):
    import hszinc
    global PINT_TAG
    if case.get('pint'):
        import warnings
        warnings.simplefilter('ignore')
        hszinc.use_pint(True)
        PINT_TAG = 'pint'
    Q = hszinc.Quantity
    table = dict(BIN + CMP + UNARY)
    table['pow3'] = pow
    a = _lit(case['a'])
    if case['mode'] == 'unary':
        u = _lit(case['b'])
        exp, got = outcome(table[case['op']], a), outcome(table[case['op']], Q(a, u))
        if exp != got:
            ctx.violation({'part': 'law', 'kind': 'qty', 'symptom': 'differs:result', 'features': ['op=' + case['op'], 'placement=unary']},
                          '%r vs %r' % (exp, got), case)
        return
    b = _lit(case['b'])
    third = _lit(case['third']) if case.get('third') not in (None, 'None') else None
    if case['mode'] == 'QQdiff' and case['op'] in dict(CMP):
        got = outcome(table[case['op']], Q(a, 'kg'), Q(b, 'm'))
        if got != ('raise', 'TypeError'):
            _viol(ctx, case['op'], 'QQdiff', a, b, ('raise', 'TypeError'), got)
        return
    if case['mode'] == 'reflected-QQ':
        refl = '__r%s__' % {'and': 'and', 'or': 'or'}.get(case['op'], case['op'])
        exp, got = outcome(table[case['op']], a, b), outcome(getattr(Q(b, 'kg'), refl), Q(a, 'kg'))
        if exp != got:
            _viol(ctx, case['op'], 'reflected-QQ', a, b, exp, got)
        return
    eval_case(ctx, Q, case['op'], table[case['op']], case['mode'], a, b, third)


def finish(ctx, merged):
    c = merged['counters']
    if c.get('results compared', 0) < 1000 or c.get('exceptions matched by class', 0) < 100:
        ctx.inconclusive.append('too few comparisons observed')
    if c.get('pint-mode shards', 0) < 3:
        ctx.inconclusive.append('pint-mode shards did not all run')
    if c.get('unit-mismatch comparisons', 0) == 0:
        ctx.inconclusive.append('unit-mismatch comparisons never ran')
    merged['exhaustive'] = True
