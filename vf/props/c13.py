"""C13 - a filter's result is independent of other filters, earlier or concurrent."""
import json
import random
import sys
import threading

from vf import domain as D
from vf import hs
from vf import reffilter as F

PROP = 'C13'
RULE = ('(histories) 1 500 distinct filters are driven through the real Grid.filter in orders built around the compiled-filter '
        'cache capacity (fill, overflow by one, cyclic sweep of capacity+1, random re-use, function objects kept across their '
        'eviction) and every result is compared with a reference evaluator; (schedules) 2-3 threads each compile+evaluate a '
        'distinct filter under a deterministic scheduler built on sys.monitoring LINE events of the filter-compiler functions: '
        'exactly one thread runs between two decision points, schedules are enumerated depth-first up to a preemption bound, '
        'with an empty cache and with a cache one short of full (evictions race with compilations); (stress) free-running '
        'threads with a 1 microsecond switch interval and yields injected in the compile window. distinct = history step / '
        'schedule (overrides) / stress round; non-trivial = schedules with at least one preemption, history steps after the first eviction')
ASSUME = ['vf/reffilter.py restricted to has / not / == on str and number (so C11 findings cannot leak in)',
          'line granularity inside hszinc/grid_filter.py only; switches inside one source line or inside C code are sampled '
          'by the stress mode, not enumerated', 'at most 3 controlled threads']


def make_grid(n=12):
    import hszinc
    rows = []
    for i in range(n):
        row = {'n': ('num', i, None), 's': ('str', 'v%d' % (i % 4))}
        if i % 2 == 0:
            row['even'] = D.MARKER
        if i % 3 == 0:
            row['three'] = D.MARKER
        for k in range(6):
            if (i >> k) & 1:
                row['b%d' % k] = D.MARKER
        rows.append(row)
    g = hszinc.Grid(version='3.0', columns=[(c, []) for c in ['n', 's', 'even', 'three'] + ['b%d' % k for k in range(6)]])
    hrows = []
    for r in rows:
        h = dict((k, hs.to_hs(v)) for k, v in r.items())
        hrows.append(h)
        g.append(h)
    return g, rows, hrows


def filter_family(count):
    """Distinct filters (AST, text) with distinct answers where possible."""
    out = []
    i = 0
    atoms = [('has', ['even']), ('not', ['even']), ('has', ['three']), ('not', ['three'])] + \
        [('has', ['b%d' % k]) for k in range(6)] + [('not', ['b%d' % k]) for k in range(6)]
    R = F.Renderer(None)
    while len(out) < count:
        k = i % 12
        a = ('cmp', '==', ['n'], ('num', i % 12, None))
        b = atoms[(i // 12) % len(atoms)]
        c = ('cmp', '==', ['s'], ('str', 'v%d' % ((i // 192) % 4)))
        shape = (i // 768) % 3
        # every component matters in every shape, so the 12 x 16 x 4 x 3 = 2304 filters are pairwise distinct texts
        ast = [('or', [a, ('and', [b, c])]), ('and', [('or', [a, b]), c]), ('or', [('and', [a, c]), b])][shape]
        text = R.render(ast) + ' ' * (i // 2304)       # trailing blanks make further distinct cache keys
        out.append((ast, text))
        i += 1
    return out


def expected_rows(ast, rows):
    return [i for i, r in enumerate(rows) if F.evaluate(ast, r, rows) is True]


def got_rows(res, hrows):
    pos = {id(h): i for i, h in enumerate(hrows)}
    return [pos.get(id(x), -1) for x in res]


def target_codes():
    """Code objects to schedule: every function of hszinc/grid_filter.py that runs while a filter is *compiled* and does
    not run while a compiled filter is *evaluated* on a row - discovered dynamically (PY_START recorder), so that a
    refactoring of the compiler (helper classes, generators) stays covered and per-row helpers do not blow up the
    schedule space."""
    import hszinc
    from hszinc import grid_filter as gf
    mon = sys.monitoring
    fname = gf.__file__
    seen = {'compile': set(), 'eval': set(), 'under-pyparsing': set()}
    phase = ['compile']

    def on_start(code, offset):
        if code.co_filename == fname:
            seen[phase[0]].add(code)
            # parse actions run inside pyparsing, which (with packrat enabled) holds a global lock while it calls them:
            # a thread parked there by the scheduler would block every other thread that parses - the program cannot
            # yield at those points, so they are not decision points
            f = sys._getframe(1)
            depth = 0
            while f is not None and depth < 60:
                if 'pyparsing' in f.f_code.co_filename:
                    seen['under-pyparsing'].add(code)
                    break
                f = f.f_back
                depth += 1
    try:
        mon.use_tool_id(2, 'vf-discover')
    except ValueError:
        pass
    mon.register_callback(2, mon.events.PY_START, on_start)
    mon.set_events(2, mon.events.PY_START)
    try:
        gf._filter_function.cache_clear()
        g = hszinc.Grid(version='3.0', columns=[('a', []), ('r', [])])
        g.append({'id': hszinc.Ref('x'), 'a': 1.0})
        g.append({'a': 'm', 'r': hszinc.Ref('x')})
        fns = [gf.filter_function(t) for t in ('a == 5 and not r or r->a < 2kg', 'a == "m" or a', '(a != `u`) and r')]
        gf._filter_function.cache_clear()      # finalisers of the wrappers are compile-side too
        phase[0] = 'eval'
        for fn in fns:
            for row in g:
                fn(g, row)
    finally:
        mon.set_events(2, 0)
        mon.free_tool_id(2)
    codes = sorted(seen['compile'] - seen['eval'] - seen['under-pyparsing'], key=lambda c: (c.co_firstlineno, c.co_name))
    # generated functions and pyparsing parse-action lambdas that only shuffle tokens carry no shared state, but are
    # harmless to include; module-level code (<module>) cannot run again
    codes = [c for c in codes if c.co_name != '<module>' and not c.co_name.startswith('_gen_hsfilter_')]
    return codes, ['%s:%d' % (c.co_name, c.co_firstlineno) for c in codes]


PATH_FILTERS = ['r->val == 1', 'r->val == 2', 'r->val == 7', 'r->val == 9', 'r->val', 'not r->val', 'r->val < 5', 'r->val >= 2',
                'r->id', 'r->k', 'r->r->val == 1', 'r->val == 1 or k == "d"', 'k == "a" and r->val', 'r->val != 7', 'id and val > 1',
                'r->nope', 'not r->nope', 'r == @t1', 'r == @p1', 'val', 'k',
                # comparisons that are refused for one row and fine for the next (units, kinds): what one evaluation learns
                # about a pair of operands says nothing about the next pair
                'q > 5kW', 'q > 70degF', 'q < 100degF', 'q == 72degF', 'q >= 20kW', 'q != 5kW', 'q <= 72degF', 'val > 5kW', 'q > 5',
                'k > 5', 'k < "c"', 'val < "c"', 'q < "c"', 'r->q > 70degF', 'r->q > 5kW', 'q', 'k == 5', 'val == "a"']

_FIRST_USE = r'''
import sys, json, warnings
warnings.simplefilter('ignore')
sys.path.insert(0, sys.argv[1])
sys.path.insert(0, sys.argv[2])
class Sink(object):
    def write(self, s): pass
    def flush(self): pass
out = sys.stdout
sys.stdout = Sink()
from vf.props import c13
g, hrows = c13.mixed_grid()
try:
    res = c13.got_rows(g.filter(sys.argv[3]), hrows)
except Exception as e:
    res = 'raised ' + type(e).__name__
out.write(json.dumps(res))
'''


def mixed_grid():
    """Ids given as Ref, as plain string, and one name given both ways; rows that point at them."""
    import hszinc
    R = hszinc.Ref
    rows = [{'id': R('t1'), 'val': 1.0}, {'id': 't1', 'val': 2.0}, {'id': 'p1', 'val': 7.0}, {'id': R('q1'), 'val': 9.0, 'r': R('t1')},
            {'r': R('t1'), 'k': 'a'}, {'r': R('p1'), 'k': 'b'}, {'r': R('q1'), 'k': 'c'}, {'r': R('nowhere'), 'k': 'd'},
            {'r': R('t1', 'Display T'), 'k': 'e'}, {'r': 't1', 'k': 'f'}, {'id': R('z9'), 'r': R('p1'), 'val': 3.0},
            {'id': R('u1'), 'q': hszinc.Quantity(72, 'degF')}, {'id': R('u2'), 'q': hszinc.Quantity(30, 'kW'), 'k': 'g'},
            {'q': hszinc.Quantity(68, 'degF'), 'r': R('u1')}, {'q': 80.0, 'r': R('u2'), 'k': 'h'}, {'q': hszinc.Quantity(3, 'kW'), 'val': 6.0}]
    g = hszinc.Grid(version='3.0', columns=[(c, []) for c in ('id', 'val', 'r', 'k', 'q')])
    for r in rows:
        g.append(r)
    return g, rows


def first_use_part(spec, ctx):
    """Every filter of a small set is evaluated as the *first filter ever used* in an interpreter of its own; in this
    process the same filters are then evaluated in long random orders, mixed with other filters and on two grids: the
    rows must always be those of the first use."""
    import subprocess
    from concurrent.futures import ThreadPoolExecutor
    from vf import core

    def first(text):
        p = subprocess.run([core.PY, '-B', '-c', _FIRST_USE, core.REPO, core.ROOT, text], stdin=subprocess.DEVNULL, stdout=subprocess.PIPE,
                           stderr=subprocess.PIPE, env=core.worker_env(None), timeout=300)
        try:
            return json.loads(p.stdout.decode('utf-8'))
        except Exception:
            return 'no answer: %s' % p.stderr.decode('utf-8', 'replace')[-200:]
    with ThreadPoolExecutor(max_workers=8) as ex:
        base = dict(zip(PATH_FILTERS, ex.map(first, PATH_FILTERS)))
    bad = [t for t, v in base.items() if isinstance(v, str) and v.startswith('no answer')]
    if bad:
        ctx.inconc('first-use interpreters gave no answer for %r: %s' % (bad[:2], base[bad[0]]))
        return
    ctx.count('filters evaluated as the first filter of a fresh interpreter', len(base))
    g, hrows = mixed_grid()
    g2, rows2, hrows2 = make_grid()
    # two more grids of other habits - every id a plain string / every id a Ref - filtered in between: whatever one
    # evaluation learns about *a* grid (how its ids are spelled, which kinds its cells hold) must not be carried over
    import hszinc
    R = hszinc.Ref
    g3 = hszinc.Grid(version='3.0', columns=[(c, []) for c in ('id', 'val', 'r', 'q')])
    for row in ({'id': 's1', 'val': 1.0}, {'id': 's2', 'val': 2.0, 'r': R('s1')}, {'r': R('s2'), 'q': hszinc.Quantity(1, 'kW')}, {'r': R('s1'), 'val': 5.0}):
        g3.append(row)
    g4 = hszinc.Grid(version='3.0', columns=[(c, []) for c in ('id', 'val', 'r', 'q')])
    for row in ({'id': R('s1'), 'val': 1.0}, {'id': R('s2'), 'val': 2.0, 'r': R('s1')}, {'r': R('s2'), 'q': hszinc.Quantity(1, 'degF')}, {'r': R('s1'), 'val': 5.0}):
        g4.append(row)
    fam = filter_family(300)
    r = random.Random(ctx.seed * 1000003 + 1313)
    for j in range(spec['n']):
        text = r.choice(PATH_FILTERS)
        m = r.random()
        try:
            if m < 0.25:
                g2.filter(fam[r.randrange(300)][1])
            elif m < 0.5:
                g3.filter(r.choice(['r->val', 'r->val == 1', 'r->r->val', 'q > 5kW', 'val > 1']))
            elif m < 0.75:
                g4.filter(r.choice(['r->val', 'r->val == 2', 'r->r->val', 'q > 5degF', 'val < 3']))
        except Exception:   # noqa
            pass
        ctx.case('first-use', j, text)
        try:
            got = got_rows(g.filter(text), hrows)
        except Exception as e:   # noqa
            got = 'raised ' + type(e).__name__
        ctx.count('results compared with the first-use result')
        if got != base[text]:
            ctx.violation({'part': 'history', 'kind': 'filter', 'symptom': 'differs-from-first-use', 'features': ['mixed-ids-and-units-grid']},
                          'filter %r gives rows %r after %d other evaluations in this process, %r when it is the first filter an '
                          'interpreter ever evaluates' % (text, got, j, base[text]), {'phase': 'first-use', 'n': j + 1})
            break
    ctx.sample({'first_use': {t: base[t] for t in PATH_FILTERS[:4]}})


def shards(tier, seed):
    out = [{'part': 'history'}, {'part': 'first-use', 'n': 1500 if tier == 'quick' else 60000}]
    if tier == 'quick':
        out += [{'part': 'schedules', 'threads': 2, 'bound': 2, 'prefill': 0},
                {'part': 'schedules', 'threads': 2, 'bound': 1, 'prefill': 499},
                {'part': 'schedules', 'threads': 3, 'bound': 1, 'prefill': 0},
                {'part': 'stress', 'rounds': 90, 'threads': 8}]
    else:
        out += [{'part': 'schedules', 'threads': 2, 'bound': 3, 'prefill': 0},
                {'part': 'schedules', 'threads': 3, 'bound': 2, 'prefill': 0},
                {'part': 'schedules', 'threads': 2, 'bound': 2, 'prefill': 499},
                {'part': 'schedules', 'threads': 3, 'bound': 2, 'prefill': 498},
                {'part': 'schedules', 'threads': 2, 'bound': 2, 'prefill': 0, 'same_filter': True}]
        out += [{'part': 'stress', 'rounds': 1500, 'threads': 16, 'sub': j} for j in range(6)]
    return out


def run_shard(spec, ctx):
    import hszinc
    from hszinc import grid_filter as gf
    g, rows, hrows = make_grid()
    fam = filter_family(1600)
    cap = gf.FILTER_CACHE_LRU_SIZE
    if len(set(t for _, t in fam)) != len(fam):
        ctx.inconc('the filter family is not pairwise distinct')

    def check_one(idx, label, case, fn=None):
        ast, text = fam[idx]
        exp = expected_rows(ast, rows)
        try:
            if fn is not None:
                got = [i for i, h in enumerate(hrows) if fn(g, h)]
            else:
                got = got_rows(g.filter(text), hrows)
        except Exception as e:   # noqa
            ctx.violation({'part': 'history', 'kind': 'filter', 'symptom': 'raises:' + type(e).__name__, 'features': [label]},
                          '%s: filter %r raised %s: %s' % (label, text, type(e).__name__, str(e)[:100]), case)
            return False
        ctx.count('history results compared')
        if got != exp:
            ctx.violation({'part': 'history', 'kind': 'filter', 'symptom': 'wrong-rows', 'features': [label]},
                          '%s: filter %r returned rows %r, expected %r' % (label, text, got, exp), case)
            return False
        return True

    if spec['part'] == 'first-use':
        return first_use_part(spec, ctx)
    if spec['part'] == 'history':
        gf._filter_function.cache_clear()
        info0 = gf._filter_function.cache_info()
        # phase 1: fill the cache exactly
        for i in range(cap):
            ctx.case('hist', 'fill', i, nontrivial=False)
            check_one(i, 'fill', {'phase': 'fill', 'i': i})
        # keep function objects obtained now
        kept = [(i, gf.filter_function(fam[i][1])) for i in range(0, 40)]
        # phase 2: overflow by one, then re-evaluate everything (evicts in a chain)
        check_one(cap, 'overflow', {'phase': 'overflow'})
        for i in range(cap + 1):
            ctx.case('hist', 'after-overflow', i)
            check_one(i, 'after-overflow', {'phase': 'after-overflow', 'i': i})
        # phase 3: cyclic sweep over capacity+1 filters, 3 rounds (worst case for LRU: every call recompiles)
        for rnd in range(3):
            for i in range(cap + 1):
                ctx.case('hist', 'cyclic', rnd, i)
                check_one(i, 'cyclic-sweep', {'phase': 'cyclic', 'round': rnd, 'i': i})
        # phase 4: 1500 distinct filters, then random re-use
        for i in range(1500):
            ctx.case('hist', 'distinct', i)
            check_one(i, 'distinct-1500', {'phase': 'distinct', 'i': i})
        r = random.Random(ctx.seed * 1000003 + 1300)
        for j in range(3000):
            i = r.randrange(1500) if r.random() < 0.7 else r.randrange(60)
            ctx.case('hist', 'reuse', j, i)
            check_one(i, 'random-reuse', {'phase': 'reuse', 'j': j, 'i': i})
        # phase 4b: a few hot filters are re-used every 100 compilations while 2 600 other filters are compiled
        # (a still-cached filter must keep working after any number of later compilations)
        hot = list(range(1500, 1510))
        for i in hot:
            check_one(i, 'hot-compile', {'phase': 'hot', 'i': i})
        for j in range(2600):
            ctx.case('hist', 'hot-churn', j)
            check_one(j % 1400, 'hot-churn', {'phase': 'hot-churn', 'j': j})
            if j % 100 == 99:
                for i in hot:
                    check_one(i, 'hot-filter-after-many-compilations', {'phase': 'hot-reuse', 'j': j, 'i': i})
        # phase 4c: filters that share a long common prefix (60 leading blanks) - the cache key is the whole text
        for i in range(0, 120):
            ast, text = fam[i]
            exp = expected_rows(ast, rows)
            ctx.case('hist', 'long-common-prefix', i)
            try:
                got = got_rows(g.filter(' ' * 60 + text), hrows)
            except Exception as e:   # noqa
                got = 'raised %s' % type(e).__name__
            ctx.count('history results compared')
            if got != exp:
                ctx.violation({'part': 'history', 'kind': 'filter', 'symptom': 'wrong-rows', 'features': ['long-common-prefix']},
                              'filter %r (after 60 blanks) returned %r, expected %r' % (text, got, exp), {'phase': 'prefix', 'i': i})
                break
        # phase 5: function objects obtained before their eviction still answer right
        for i, fn in kept:
            ctx.case('hist', 'kept-function', i)
            check_one(i, 'kept-function-after-eviction', {'phase': 'kept', 'i': i}, fn=fn)
        info = gf._filter_function.cache_info()
        ctx.count('LRU misses (compilations)', info.misses - info0.misses)
        ctx.count('LRU hits', info.hits - info0.hits)
        ctx.count('LRU evictions (misses beyond capacity)', max(0, (info.misses - info0.misses) - cap))
        leaked = [k for k in gf.__dict__ if k.startswith('_gen_hsfilter_')]
        ctx.count('generated functions alive at the end', len(leaked))
        if len(leaked) > cap + 50:
            ctx.violation({'part': 'history', 'kind': 'filter', 'symptom': 'generated-functions-leak', 'features': []},
                          '%d generated functions alive with a cache of %d' % (len(leaked), cap), {'phase': 'leak'})
        ctx.sample({'history_phases': ['fill %d' % cap, 'overflow', 'cyclic sweep of %d x3' % (cap + 1), '1500 distinct', '3000 random re-uses', '10 hot filters across 2600 compilations',
                                       '40 kept function objects'], 'example_filter': fam[5][1]})
        return

    if spec['part'] == 'schedules':
        from vf import sched
        codes, names = target_codes()
        if len(codes) < 3:
            ctx.inconc('fewer than 3 filter-compiler functions could be instrumented: %r' % (names,))
            return
        sched.install(codes)
        k = spec['threads']
        ctr = [0]
        base = 100

        def make_ops():
            gf._filter_function.cache_clear()
            for j in range(spec['prefill']):
                g.filter(fam[1000 + j][1])
            ctr[0] += 1
            ops = []
            for t in range(k):
                idx = base + (0 if spec.get('same_filter') else t)
                ops.append(lambda idx=idx: got_rows(g.filter(fam[idx][1]), hrows))
            return ops

        def check(results, s, ov):
            ctx.case('schedule', k, spec['prefill'], ov, nontrivial=len(ov) > 0)
            ctx.count('schedules executed')
            ctx.count('decision points', len(s.decisions))
            if s.failed:
                ctx.inconc('schedule %r: %s' % (ov, s.failed))
            case = {'threads': k, 'prefill': spec['prefill'], 'overrides': [list(x) for x in ov], 'same_filter': bool(spec.get('same_filter'))}
            feats = ['threads=%d' % k, 'prefill=%d' % spec['prefill']] + (['same-filter'] if spec.get('same_filter') else [])
            # did another thread run inside some thread's compile window?
            inter = 0
            last = None
            for tid, fn, line in s.trace:
                if last is not None and tid != last and fn not in ('filter_function', '<start>'):
                    inter += 1
                last = tid
            ctx.count('switches inside the compile window', inter)
            for t, res in enumerate(results):
                idx = base + (0 if spec.get('same_filter') else t)
                exp = expected_rows(fam[idx][0], rows)
                if res is None:
                    ctx.inconc('thread %d produced no result' % t)
                elif res[0] == 'raise':
                    ctx.violation({'part': 'schedule', 'kind': 'filter', 'symptom': 'raises:' + res[1], 'features': feats},
                                  'thread %d evaluating %r raised %s: %s [schedule %r; trace %r]' % (
                                      t, fam[idx][1], res[1], res[2], ov, compact(s.trace)), case)
                elif res[1] != exp:
                    ctx.violation({'part': 'schedule', 'kind': 'filter', 'symptom': 'wrong-rows', 'features': feats},
                                  'thread %d evaluating %r got rows %r, expected %r [schedule %r; trace %r]' % (
                                      t, fam[idx][1], res[1], exp, ov, compact(s.trace)), case)
            # afterwards, sequentially: the same filters (now cached) and an old one still answer right
            for t in range(k):
                idx = base + (0 if spec.get('same_filter') else t)
                try:
                    again = got_rows(g.filter(fam[idx][1]), hrows)
                    if again != expected_rows(fam[idx][0], rows):
                        ctx.violation({'part': 'schedule', 'kind': 'filter', 'symptom': 'wrong-rows-later', 'features': feats},
                                      'after schedule %r the cached filter %r answers %r' % (ov, fam[idx][1], again), case)
                except Exception as e:   # noqa
                    ctx.violation({'part': 'schedule', 'kind': 'filter', 'symptom': 'raises-later:' + type(e).__name__, 'features': feats},
                                  'after schedule %r the cached filter %r raises %s' % (ov, fam[idx][1], type(e).__name__), case)
        stats = sched.explore(codes, make_ops, check, spec['bound'], max_schedules=800 if ctx.tier == 'quick' else 40000,
                              max_seconds=None if ctx.tier == 'quick' else 1500)
        ctx.count('distinct interleavings (trace fingerprints)', len(stats['fingerprints']))
        ctx.count('max decision points in one execution', 0)
        ctx.note('threads=%d bound=%d prefill=%d: %d schedules (by number of preemptions %r, %d left unexplored by the cap), %d distinct '
                 'interleavings, up to %d decision points; instrumented: %s' % (
                     k, spec['bound'], spec['prefill'], stats['schedules'], stats['by_preemptions'], stats['left_unexplored'],
                     len(stats['fingerprints']), stats['max_decisions'], ','.join(names)))
        ctx.count('single-preemption schedules executed', stats['by_preemptions'].get(1, 0))
        ctx.cls('schedules', 'threads=%d' % k, 'bound=%d' % spec['bound'], 'prefill=%d' % spec['prefill'])
        ctx.sample({'threads': k, 'bound': spec['bound'], 'prefill': spec['prefill'], 'schedules': stats['schedules'],
                    'distinct_interleavings': len(stats['fingerprints']), 'instrumented_functions': names})
        gf._filter_function.cache_clear()
        return

    # stress: free-running threads, tiny switch interval, yields injected at the lines of the compile window
    import time
    mon = sys.monitoring
    codes, names = target_codes()
    old = sys.getswitchinterval()
    sys.setswitchinterval(1e-6)
    rr = random.Random(ctx.seed * 1000003 + 1350 + spec.get('sub', 0))
    hits = [0]

    def on_line(code, line):
        hits[0] += 1
        if hits[0] & 1:
            time.sleep(0)
    try:
        mon.use_tool_id(5, 'vf-stress')
    except ValueError:
        pass
    mon.register_callback(5, mon.events.LINE, on_line)
    for c in codes:
        mon.set_local_events(5, c, mon.events.LINE)
    k = spec['threads']
    fps = set()
    try:
        for rnd in range(spec['rounds']):
            gf._filter_function.cache_clear()
            if rnd % 5 == 0:
                for j in range(cap - k // 2):
                    g.filter(fam[1000 + j][1])
            idxs = [(rnd * k + t) % 900 for t in range(k)]
            results = [None] * k
            barrier = threading.Barrier(k)

            def body(t):
                try:
                    barrier.wait(timeout=10)
                    results[t] = ('ok', got_rows(g.filter(fam[idxs[t]][1]), hrows))
                except BaseException as e:   # noqa
                    results[t] = ('raise', type(e).__name__, str(e)[:100])
            ths = [threading.Thread(target=body, args=(t,), daemon=True) for t in range(k)]
            for th in ths:
                th.start()
            for th in ths:
                th.join(timeout=30)
            ctx.case('stress', spec.get('sub', 0), rnd)
            ctx.count('stress rounds')
            for t in range(k):
                exp = expected_rows(fam[idxs[t]][0], rows)
                res = results[t]
                case = {'stress': True, 'threads': k}
                if res is None:
                    ctx.inconc('stress thread did not finish')
                elif res[0] == 'raise':
                    ctx.violation({'part': 'stress', 'kind': 'filter', 'symptom': 'raises:' + res[1], 'features': ['threads=%d' % k]},
                                  'stress round %d: filter %r raised %s: %s' % (rnd, fam[idxs[t]][1], res[1], res[2]), case)
                elif res[1] != exp:
                    ctx.violation({'part': 'stress', 'kind': 'filter', 'symptom': 'wrong-rows', 'features': ['threads=%d' % k]},
                                  'stress round %d: filter %r got %r expected %r' % (rnd, fam[idxs[t]][1], res[1], exp), case)
        ctx.count('stress line-hook hits', hits[0])
    finally:
        sys.setswitchinterval(old)
        mon.set_events(5, 0)
        for c in codes:
            mon.set_local_events(5, c, 0)
    ctx.sample({'stress': {'threads': k, 'rounds': spec['rounds'], 'line_hook_hits': hits[0]}})


def compact(trace):
    out = []
    for tid, fn, line in trace:
        out.append('%d:%s:%d' % (tid, fn[:6], line))
    return ' '.join(out[:60])


def replay(case, ctx):
    import hszinc
    if case.get('phase') == 'first-use':
        return first_use_part({'part': 'first-use', 'n': max(1500, case.get('n', 0))}, ctx)
    if case.get('overrides') is not None:
        spec = {'part': 'schedules', 'threads': case['threads'], 'bound': 0, 'prefill': case['prefill'],
                'same_filter': case.get('same_filter')}
        # run exactly that schedule
        from vf import sched
        from hszinc import grid_filter as gf
        g, rows, hrows = make_grid()
        fam = filter_family(1600)
        codes, names = target_codes()
        sched.install(codes)
        gf._filter_function.cache_clear()
        for j in range(case['prefill']):
            g.filter(fam[1000 + j][1])
        ops = []
        for t in range(case['threads']):
            idx = 100 + (0 if case.get('same_filter') else t)
            ops.append(lambda idx=idx: got_rows(g.filter(fam[idx][1]), hrows))
        results, s = sched.run_schedule(codes, ops, [tuple(x) for x in case['overrides']])
        for t, res in enumerate(results):
            idx = 100 + (0 if case.get('same_filter') else t)
            exp = expected_rows(fam[idx][0], rows)
            if res and res[0] == 'raise':
                ctx.violation({'part': 'schedule', 'kind': 'filter', 'symptom': 'raises:' + res[1], 'features': []},
                              'thread %d raised %s [trace %s]' % (t, res[1], compact(s.trace)), case)
            elif res and res[1] != exp:
                ctx.violation({'part': 'schedule', 'kind': 'filter', 'symptom': 'wrong-rows', 'features': []},
                              'thread %d got %r expected %r [trace %s]' % (t, res[1], exp, compact(s.trace)), case)
    else:
        run_shard({'part': 'history'}, ctx)


def finish(ctx, merged):
    c = merged['counters']
    if c.get('distinct interleavings (trace fingerprints)', 0) < 100:
        ctx.inconclusive.append('fewer than 100 distinct interleavings: %d' % c.get('distinct interleavings (trace fingerprints)', 0))
    if c.get('LRU evictions (misses beyond capacity)', 0) == 0:
        ctx.inconclusive.append('no LRU eviction observed')
    if c.get('switches inside the compile window', 0) == 0:
        ctx.inconclusive.append('no schedule switched threads inside the compile window')
    if c.get('results compared with the first-use result', 0) < 1000:
        ctx.inconclusive.append('first-use comparison did not run to the end')
    if c.get('stress rounds', 0) == 0:
        ctx.inconclusive.append('stress mode did not run')
