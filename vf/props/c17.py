"""C17 - date-times keep instant, offset and zone through every mapped zone and DST transition."""
import datetime
import random

import pytz

from vf import tzref

PROP = 'C17'
RULE = ('for every Haystack zone hszinc maps on this host: the tz object handed out by hszinc.zoneinfo.timezone(name) must '
        'be the zone of that name (independent suffix resolution) and the map one-to-one; every tabulated UTC transition '
        'instant of the zone (pytz table) +-{0, 1 s, 30 min}, with microsecond in {0, 1, 999999} (plus 17 other microsecond values per zone, among them ones a float cannot hold exactly), is converted to local time '
        '(utc.localize(t).astimezone(Z), so ambiguous and skipped local times arise from real instants), written with '
        'dump_scalar and read back with parse_scalar in both formats; instant, UTC offset, zone of the result and the zone '
        'token in the text are compared. Other tz-aware values (datetime.timezone / pytz.FixedOffset for every whole-minute '
        'offset -14h..+14h at ordinary / somewhere-ambiguous / somewhere-skipped instants, unmapped pytz zones, pytz zones '
        'attached without localize) must give a zone with that offset at that instant, or ValueError. distinct = '
        '(zone, instant, format); non-trivial = instants within 30 min of a transition')
ASSUME = ['pytz is the calendar (transition tables, utcoffset)', 'instants whose UTC offset is not a whole number of minutes '
          '(local-mean-time era) are skipped and counted: the formats\' +hh:mm offset cannot express them',
          'the zone list is by definition hszinc.zoneinfo.get_tz_map() on this host']

EPS = [datetime.timedelta(0), datetime.timedelta(seconds=1), datetime.timedelta(seconds=-1),
       datetime.timedelta(minutes=30), datetime.timedelta(minutes=-30)]
MICROS = [0, 1, 999999]


def transitions(tz):
    tt = getattr(tz, '_utc_transition_times', None) or []
    return [t for t in tt if t.year >= 2 and t.year <= 9997]


def zone_cases(tz, which, rng):
    tt = transitions(tz)
    if which == 'all':
        sel = tt
    else:
        sel = tt[-8:]
        older = tt[:-8]
        if older:
            sel = sel + rng.sample(older, min(4, len(older)))
    out = []
    for t in sel:
        for e in EPS:
            for us in (MICROS if e == EPS[0] else [0]):
                out.append((t + e).replace(microsecond=us) if us else t + e)
    # some ordinary instants too
    for y in (1955, 1985, 2020, 2037):
        out.append(datetime.datetime(y, 6, 15, 12, 34, 56, 789000))
    # microsecond values a binary float cannot hold exactly (0.000249 * 1e6 is 248.99999999999997): a reader that goes
    # through float arithmetic loses a microsecond on about one value in ninety; plus a few random ones per zone
    for us in (249, 251, 489, 1001, 8193, 524287, 123457, 999998, 500001, 57, 29) + tuple(rng.randrange(1000000) for _ in range(6)):
        out.append(datetime.datetime(2021, 3, 3, 3, 33, 33, us))
    # skipped local times cannot arise from real instants: build them the way a user can, with
    # tz.localize(wall clock inside the gap, is_dst=...).  They denote a real instant, but their
    # UTC offset is not the zone's offset at that instant, so only instant and zone are judged.
    gaps = []
    for t in sel:
        try:
            before = pytz.utc.localize(t - datetime.timedelta(seconds=1)).astimezone(tz)
            after = pytz.utc.localize(t).astimezone(tz)
            jump = after.utcoffset() - before.utcoffset()
            if jump > datetime.timedelta(0):
                wall = before.replace(tzinfo=None) + datetime.timedelta(seconds=1) + jump / 2
                wall = wall.replace(microsecond=0)
                for is_dst in (False, True):
                    gaps.append(tz.localize(wall, is_dst=is_dst))
        except (OverflowError, ValueError):
            pass
    return out, len(sel), len(tt), gaps


def _off(td):
    return td.days * 86400 + td.seconds


def rt_one(ctx, hszinc, Z, tz, utc_naive, mode, mname, given=None):
    """Returns None or (symptom, what).  given: an aware value built by tz.localize in a gap (offset not judged)."""
    dt = given if given is not None else pytz.utc.localize(utc_naive).astimezone(tz)
    off = _off(dt.utcoffset())
    if off % 60:
        ctx.count('skipped: offset not a whole minute (LMT era)')
        return None
    ctx.count('round trips')
    try:
        text = hszinc.dump_scalar(dt, mode=mode)
    except Exception as e:
        return ('dump-raises:' + type(e).__name__, '%s %s: dump raised %r' % (Z, dt.isoformat(), e))
    token = text.rsplit(' ', 1)[-1] if isinstance(text, str) and ' ' in text else None
    if token != Z:
        return ('zone-token', '%s %s: emitted text %r names zone %r' % (Z, dt.isoformat(), text, token))
    try:
        back = hszinc.parse_scalar(text, mode=mode)
    except Exception as e:
        return ('parse-raises:' + type(e).__name__, '%s: text %r: %r' % (Z, text, e))
    if not isinstance(back, datetime.datetime) or back.tzinfo is None:
        return ('kind-changed', '%s: text %r came back as %r' % (Z, text, back))
    if back != dt:
        return ('instant-changed', '%s: %s -> %r -> %s' % (Z, dt.isoformat(), text, back.isoformat()))
    if given is None and back.utcoffset() != dt.utcoffset():
        return ('offset-changed', '%s: %s -> %r -> %s' % (Z, dt.isoformat(), text, back.isoformat()))
    bz = getattr(back.tzinfo, 'zone', None)
    if bz is None or not (bz == Z or bz.endswith('/' + Z)):
        return ('zone-changed', '%s: %s came back in zone %r' % (Z, dt.isoformat(), bz))
    if given is None and (back.microsecond, back.second) != (dt.microsecond, dt.second):
        return ('instant-changed', 'sub-minute fields differ')
    return None


def classify(tz, utc_naive):
    """ambiguous / skipped-edge / ordinary, for the evidence."""
    loc = pytz.utc.localize(utc_naive).astimezone(tz).replace(tzinfo=None)
    try:
        tz.localize(loc, is_dst=None)
        return 'ordinary'
    except pytz.AmbiguousTimeError:
        return 'ambiguous-local-time'
    except pytz.NonExistentTimeError:
        return 'skipped-local-time'
    except Exception:
        return 'ordinary'


def shards(tier, seed):
    n = 16
    out = [{'part': 'zones', 'slice': [i, n], 'which': 'recent' if tier == 'quick' else 'all'} for i in range(n)]
    out.append({'part': 'map'})
    out.append({'part': 'cold-start', 'rounds': 12 if tier == 'quick' else 120})
    out.append({'part': 'foreign', 'step': 15 if tier == 'quick' else 1})
    return out


def cold_start(spec, ctx, work=None, sig=None):
    """First use of the zone tables from several threads at once (the tables are built lazily): every thread's first
    round trip must already be right.  The module is reloaded before each round (cold tables) and a LINE hook yields
    inside hszinc/zoneinfo.py so that threads really overlap in the build."""
    import importlib
    import sys
    import threading
    import time
    import hszinc
    from hszinc import zoneinfo
    mon = sys.monitoring
    names = ['Zurich', 'Brisbane', 'New_York', 'Kolkata', 'Tokyo', 'London', 'Sao_Paulo', 'Vancouver', 'Nairobi', 'Amsterdam', 'Adelaide',
             'Chicago']
    hits = [0]

    def on_line(code, line):
        hits[0] += 1
        if hits[0] % 3 == 0:
            time.sleep(0)
    try:
        mon.use_tool_id(5, 'vf-c17')
    except ValueError:
        pass
    mon.register_callback(5, mon.events.LINE, on_line)
    old_interval = sys.getswitchinterval()
    sys.setswitchinterval(1e-5)
    instrumented = []
    seen_ids = set()

    def instrument():
        for obj in list(vars(zoneinfo).values()):
            co = getattr(obj, '__code__', None)
            # (code objects compare by value: a reloaded function's code equals the old one, so key on identity)
            if co is not None and co.co_filename == zoneinfo.__file__ and id(co) not in seen_ids:
                mon.set_local_events(5, co, mon.events.LINE)
                seen_ids.add(id(co))
                instrumented.append(co)
    r = random.Random(ctx.seed * 1000003 + 1717)
    try:
        instrument()
        for rnd in range(spec['rounds']):
            importlib.reload(zoneinfo)          # cold zone tables; functions imported elsewhere share the module globals
            instrument()
            zs = r.sample(names, 6)
            results = [None] * len(zs)
            barrier = threading.Barrier(len(zs))

            def body(i, Z):
                try:
                    tz = pytz.timezone(tzref.full_name(Z))
                    t = datetime.datetime(2021, 3, 28, 0, 30, 0, 123456) + datetime.timedelta(hours=i)
                    barrier.wait(timeout=20)
                    out = []
                    if work is not None:
                        out = list(work(Z, tz, t))
                    else:
                        for mode, mname in ((hszinc.MODE_ZINC, 'zinc'), (hszinc.MODE_JSON, 'json')):
                            out.append(rt_one(_NullCtx(), hszinc, Z, tz, t, mode, mname))
                    results[i] = out
                except BaseException as e:   # noqa
                    results[i] = [('thread-raises:' + type(e).__name__, str(e)[:100])]
            ths = [threading.Thread(target=body, args=(i, Z), daemon=True) for i, Z in enumerate(zs)]
            for th in ths:
                th.start()
            for th in ths:
                th.join(timeout=60)
            ctx.case('cold-start', rnd, zs)
            ctx.count('cold-start rounds (threads race on the first use of the zone tables)')
            for Z, res in zip(zs, results):
                if res is None:
                    ctx.inconc('cold-start thread did not finish')
                    continue
                for x in res:
                    if x:
                        base = dict(sig or {'part': 'cold-start', 'kind': 'dt'})
                        base.update({'symptom': x[0], 'features': ['threads=%d' % len(zs), 'first-use-of-the-zone-tables']})
                        ctx.violation(base,
                                      'first use of the zone tables from %d threads at once: zone %s: %s' % (len(zs), Z, x[1]),
                                      {'cold_start': True})
        ctx.count('cold-start line-hook hits', hits[0])
    finally:
        sys.setswitchinterval(old_interval)
        mon.set_events(5, 0)
        for co in instrumented:
            try:
                mon.set_local_events(5, co, 0)
            except Exception:
                pass
    ctx.sample({'cold_start': {'rounds': spec['rounds'], 'threads': 6, 'line_hook_hits': hits[0]}})


class _NullCtx(object):
    def count(self, *a, **k):
        pass


def check_map(ctx, hszinc, zoneinfo, zones, phase):
    """The name <-> tz mapping is one-to-one, and every mapped zone is written under its own name."""
    feats = [] if phase == 'fresh' else [phase]
    tzmap = zoneinfo.get_tz_map()
    rmap = zoneinfo.get_tz_rmap()
    if phase == 'fresh':
        ctx.count('mapped zones', len(zones))
    ctx.count('map integrity sweeps')
    seen = {}
    for Z in zones:
        ctx.case('map', Z, phase)

        tz = zoneinfo.timezone(Z)
        full = tz.zone
        cands = tzref.candidates(Z)
        if full not in cands:
            ctx.violation({'part': 'map', 'kind': 'zone', 'symptom': 'maps-to-other-zone', 'features': feats},
                          'Haystack zone %r is mapped to %r; zones of that name: %r' % (Z, full, cands), {'zone': Z})
        if full in seen:
            ctx.violation({'part': 'map', 'kind': 'zone', 'symptom': 'not-injective', 'features': feats},
                          '%r and %r both map to %r' % (Z, seen[full], full), {'zone': Z})
        seen[full] = Z
        if rmap.get(tzmap[Z]) != Z:
            ctx.violation({'part': 'map', 'kind': 'zone', 'symptom': 'rmap-not-inverse', 'features': feats},
                          'rmap[map[%r]] = %r' % (Z, rmap.get(tzmap[Z])), {'zone': Z})
        dt = pytz.utc.localize(datetime.datetime(2020, 1, 1)).astimezone(tz)
        try:
            nm = zoneinfo.timezone_name(dt)
        except Exception as e:
            nm = 'raised %r' % (e,)
        for mname, mode in (('zinc', hszinc.MODE_ZINC), ('json', hszinc.MODE_JSON)):
            try:
                text = hszinc.dump_scalar(dt, mode=mode, version='3.0')
            except Exception as e:   # noqa
                text = 'raised %r' % (e,)
            if not text.rstrip('"').endswith(' ' + Z):
                ctx.violation({'part': 'map', 'format': mname, 'kind': 'zone', 'symptom': 'written-under-another-name', 'features': feats},
                              'a date-time of zone %r is written as %r' % (Z, text), {'zone': Z})
        if nm != Z:
            ctx.violation({'part': 'map', 'kind': 'zone', 'symptom': 'name-roundtrip', 'features': feats},
                          'timezone_name(timezone(%r)) = %r' % (Z, nm), {'zone': Z})
    if len(rmap) != len(tzmap):
        ctx.violation({'part': 'map', 'kind': 'zone', 'symptom': 'not-injective', 'features': feats},
                      'map has %d names, reverse map %d' % (len(tzmap), len(rmap)), {})
    # unknown names must be refused with ValueError
    for bad in ('Nowhere', 'utc', '', 'America/New_York', 'New York'):
        ctx.case('map-unknown', bad)
        try:
            zoneinfo.timezone(bad)
            if bad not in tzmap:
                ctx.violation({'part': 'map', 'kind': 'zone', 'symptom': 'unknown-accepted', 'features': feats},
                              'timezone(%r) accepted' % bad, {'zone': bad})
        except ValueError:
            pass
        except Exception as e:
            ctx.violation({'part': 'map', 'kind': 'zone', 'symptom': 'unknown-raises:' + type(e).__name__, 'features': feats},
                          'timezone(%r) raised %r' % (bad, e), {'zone': bad})


def run_shard(spec, ctx):
    import hszinc
    from hszinc import zoneinfo
    from vf import hs
    if spec['part'] == 'cold-start':
        return cold_start(spec, ctx)
    zones = hs.mapped_zones()
    if spec['part'] == 'map':
        check_map(ctx, hszinc, zoneinfo, zones, 'fresh')
        # zone labels nothing writes but a peer might send: other spellings of the fixed-offset zones, other cases, full
        # names. Whether each is taken or refused is not judged here - that the mapping is still one-to-one afterwards is
        names0 = sorted(zoneinfo.get_tz_map())
        odd = ['GMT0', 'UTC0', 'GMT+0', 'GMT-0', 'GMT-00', 'GMT+05', 'GMT-010', 'GMT+5:00', 'UTC+5', 'Etc/GMT+5', 'Etc/UTC', 'Z', 'gmt', 'Gmt+5',
               'utc', 'Utc', 'new_york', 'NEW_YORK', 'America/New_York', 'New_York ', ' New_York', 'Newyork', 'GMT+15', 'GMT-15', 'GMT+5 ',
               'Rel', 'UCT', 'Zulu', 'Universal', 'Greenwich', 'GMT+05:30', 'Kolkata/', 'Asia/Kolkata', 'Calcutta']
        for name in odd:
            ctx.case('odd-zone-label', name)
            for how, fn in (('timezone()', lambda: zoneinfo.timezone(name)),
                            ('zinc scalar', lambda: hszinc.parse_scalar('2020-06-01T00:00:00Z ' + name, mode=hszinc.MODE_ZINC, version='3.0')),
                            ('zinc -05:00', lambda: hszinc.parse_scalar('2020-06-01T00:00:00-05:00 ' + name, mode=hszinc.MODE_ZINC, version='3.0')),
                            ('zinc grid', lambda: hszinc.parse('ver:"3.0"\na\n2020-06-01T00:00:00Z ' + name + '\n', mode=hszinc.MODE_ZINC)),
                            ('json', lambda: hszinc.parse({'meta': {'ver': '3.0'}, 'cols': [{'name': 'a'}],
                                                           'rows': [{'a': 't:2020-06-01T00:00:00Z ' + name}]}, mode=hszinc.MODE_JSON)),
                            ('json -05:00', lambda: hszinc.parse_scalar('t:2020-06-01T00:00:00-05:00 ' + name, mode=hszinc.MODE_JSON, version='3.0'))):
                try:
                    fn()
                    ctx.count('odd zone labels taken')
                except Exception:
                    ctx.count('odd zone labels refused')
        if sorted(zoneinfo.get_tz_map()) != names0:
            extra = sorted(set(zoneinfo.get_tz_map()) ^ set(names0))
            ctx.violation({'part': 'map', 'kind': 'zone', 'symptom': 'map-changed-by-reading', 'features': ['after-odd-labels']},
                          'the set of Haystack zone names changed after reading odd zone labels: %r' % (extra[:8],), {'zone': 'odd-labels'})
        check_map(ctx, hszinc, zoneinfo, zones, 'after-odd-labels')
        ctx.sample({'map': {z: zoneinfo.get_tz_map()[z] for z in zones[:5]}, 'odd_labels': odd[:6]})
        return
    if spec['part'] == 'zones':
        i, n = spec['slice']
        r = random.Random(ctx.seed * 1000003 + 1700 + i)
        tot_sel = tot_all = 0
        for zi, Z in enumerate(zones):
            if zi % n != i:
                continue
            tz = zoneinfo.timezone(Z)
            cases, nsel, nall, gaps = zone_cases(tz, spec['which'], r)
            for gdt in gaps:
                for mode, mname in ((hszinc.MODE_ZINC, 'zinc'), (hszinc.MODE_JSON, 'json')):
                    ctx.case(Z, 'gap', gdt.isoformat(), mname)
                    res = rt_one(ctx, hszinc, Z, tz, None, mode, mname, given=gdt)
                    if res:
                        ctx.violation({'part': 'zone-roundtrip', 'format': mname, 'kind': 'dt', 'symptom': res[0],
                                       'features': ['skipped-local-time']}, res[1],
                                      {'zone': Z, 'gap': gdt.isoformat(), 'mode': mname})
                ctx.count('instants: skipped-local-time')
                ctx.cls('skipped-local-time')
            tot_sel += nsel
            tot_all += nall
            ctx.count('zones covered')
            for t in cases:
                near = any(abs((t.replace(microsecond=0) - x).total_seconds()) <= 1800 for x in ())  # computed below
                for mode, mname in ((hszinc.MODE_ZINC, 'zinc'), (hszinc.MODE_JSON, 'json')):
                    ctx.case(Z, t.isoformat(), mname)
                    res = rt_one(ctx, hszinc, Z, tz, t, mode, mname)
                    if res:
                        cl = classify(tz, t)
                        ctx.violation({'part': 'zone-roundtrip', 'format': mname, 'kind': 'dt', 'symptom': res[0],
                                       'features': [cl] + (['usec'] if t.microsecond else [])},
                                      res[1], {'zone': Z, 'utc': t.isoformat(), 'mode': mname})
                cl = classify(tz, t)
                ctx.count('instants: ' + cl)
                ctx.cls(cl)
            if zi == i:
                tt = transitions(tz)
                ctx.sample({'zone': Z, 'tz': tz.zone, 'transitions_tabulated': len(tt),
                            'example': hszinc.dump_scalar(pytz.utc.localize(cases[0]).astimezone(tz)) if cases else None})
        ctx.count('transitions covered', tot_sel)
        ctx.count('transitions tabulated', tot_all)
        return
    # foreign tz-aware values
    instants = [('ordinary', datetime.datetime(2020, 6, 15, 12, 0, 0)),
                ('somewhere-ambiguous', datetime.datetime(2021, 11, 7, 5, 30, 0)),
                ('somewhere-skipped', datetime.datetime(2021, 3, 14, 7, 30, 0)),
                ('usec', datetime.datetime(1999, 12, 31, 23, 59, 59, 999999))]
    foreign = []
    for m in range(-14 * 60, 14 * 60 + 1, spec['step']):
        foreign.append(('datetime.timezone', 'offset=%+d' % m, datetime.timezone(datetime.timedelta(minutes=m))))
        foreign.append(('pytz.FixedOffset', 'offset=%+d' % m, pytz.FixedOffset(m)))
    for name in ('US/Eastern', 'Etc/GMT+5', 'Pacific/Kwajalein', 'America/Argentina/Buenos_Aires', 'Asia/Calcutta',
                 'America/Indiana/Indianapolis', 'Europe/Belfast', 'Australia/ACT', 'EST', 'EST5EDT', 'Etc/GMT-14', 'Zulu'):
        foreign.append(('pytz-unmapped', name, pytz.timezone(name)))
    for kind, label, tz in foreign:
        for iname, t in instants:
            dt = pytz.utc.localize(t).astimezone(tz)
            foreign_one(ctx, hszinc, kind, label, iname, dt)
    # pytz zone attached without localize(): the offset is the zone's first (LMT) offset
    for name in ('Europe/Amsterdam', 'America/New_York', 'Asia/Kolkata', 'Australia/Brisbane'):
        dt = datetime.datetime(2020, 1, 1, 12, 0, 0, tzinfo=pytz.timezone(name))
        foreign_one(ctx, hszinc, 'pytz-attached-without-localize', name, 'ordinary', dt)
    # naive
    for mode in (hszinc.MODE_ZINC, hszinc.MODE_JSON):
        ctx.case('naive', mode)
        try:
            hszinc.dump_scalar(datetime.datetime(2020, 1, 1), mode=mode)
            ctx.violation({'part': 'foreign', 'kind': 'naive', 'symptom': 'naive-accepted', 'features': []},
                          'a naive datetime was written', {})
        except ValueError:
            ctx.count('foreign: ValueError')
        except Exception as e:
            ctx.violation({'part': 'foreign', 'kind': 'naive', 'symptom': 'raises:' + type(e).__name__, 'features': []},
                          'naive datetime: %r' % (e,), {})
    ctx.sample({'foreign': 'datetime.timezone(+05:45) at 2020-06-15T12:00Z',
                'text': _safe(lambda: hszinc.dump_scalar(pytz.utc.localize(instants[0][1]).astimezone(
                    datetime.timezone(datetime.timedelta(minutes=345)))))})


def _safe(fn):
    try:
        return fn()
    except Exception as e:
        return 'raised %r' % (e,)


def foreign_one(ctx, hszinc, kind, label, iname, dt):
    from hszinc import zoneinfo
    off = dt.utcoffset()
    if _off(off) % 60:
        ctx.count('skipped: offset not a whole minute (LMT era)')
        if kind != 'pytz-attached-without-localize':
            return
    for mode, mname in ((hszinc.MODE_ZINC, 'zinc'), (hszinc.MODE_JSON, 'json')):
        ctx.case('foreign', kind, label, iname, mname)
        ctx.cls('foreign', kind, iname)
        ctx.count('foreign values tried')
        feats = ['tz=' + kind, iname]
        case = {'kind': kind, 'label': label, 'instant': dt.isoformat(), 'mode': mname}
        try:
            text = hszinc.dump_scalar(dt, mode=mode)
        except ValueError:
            ctx.count('foreign: ValueError')
            continue
        except Exception as e:
            ctx.violation({'part': 'foreign', 'format': mname, 'kind': 'dt', 'symptom': 'dump-raises:' + type(e).__name__,
                           'features': feats}, '%s %s %s: %r' % (kind, label, dt.isoformat(), e), case)
            continue
        ctx.count('foreign: emitted')
        token = text.rsplit(' ', 1)[-1]
        try:
            ztz = zoneinfo.timezone(token)
        except Exception:
            ctx.violation({'part': 'foreign', 'format': mname, 'kind': 'dt', 'symptom': 'emitted-unknown-zone', 'features': feats},
                          '%s %s: emitted %r' % (kind, label, text), case)
            continue
        # via UTC: astimezone() is a no-op when the target is the value's own tzinfo object
        zoff = dt.astimezone(pytz.utc).astimezone(ztz).utcoffset()
        if zoff != off:
            ctx.violation({'part': 'foreign', 'format': mname, 'kind': 'dt', 'symptom': 'emitted-zone-with-other-offset', 'features': feats},
                          '%s %s %s: emitted %r but %s has offset %s at that instant, the value has %s' % (
                              kind, label, dt.isoformat(), text, token, zoff, off), case)
            continue
        try:
            back = hszinc.parse_scalar(text, mode=mode)
        except Exception as e:
            ctx.violation({'part': 'foreign', 'format': mname, 'kind': 'dt', 'symptom': 'parse-raises:' + type(e).__name__, 'features': feats},
                          '%r: %r' % (text, e), case)
            continue
        if back != dt:
            ctx.violation({'part': 'foreign', 'format': mname, 'kind': 'dt', 'symptom': 'instant-changed', 'features': feats},
                          '%s -> %r -> %s' % (dt.isoformat(), text, back.isoformat()), case)
        elif back.utcoffset() != off:
            ctx.violation({'part': 'foreign', 'format': mname, 'kind': 'dt', 'symptom': 'offset-changed', 'features': feats},
                          '%s -> %r -> %s' % (dt.isoformat(), text, back.isoformat()), case)


def replay(case, ctx):
    import hszinc
    from hszinc import zoneinfo
    if 'utc' in case:
        tz = zoneinfo.timezone(case['zone'])
        t = datetime.datetime.fromisoformat(case['utc'])
        mode = hszinc.MODE_ZINC if case['mode'] == 'zinc' else hszinc.MODE_JSON
        res = rt_one(ctx, hszinc, case['zone'], tz, t, mode, case['mode'])
        if res:
            ctx.violation({'part': 'zone-roundtrip', 'format': case['mode'], 'kind': 'dt', 'symptom': res[0],
                           'features': [classify(tz, t)]}, res[1], case)
    elif case.get('cold_start'):
        cold_start({'rounds': 30}, ctx)
    else:
        run_shard({'part': 'foreign', 'step': 15}, ctx)


def finish(ctx, merged):
    c = merged['counters']
    merged['extra'] = {'zones_mapped': c.get('mapped zones', 0), 'zones_covered': c.get('zones covered', 0),
                       'transitions_covered': c.get('transitions covered', 0),
                       'transitions_tabulated': c.get('transitions tabulated', 0)}
    merged['exhaustive'] = bool(c.get('transitions covered', 0) == c.get('transitions tabulated', -1) and
                                c.get('zones covered', 0) == c.get('mapped zones', -1))
    if c.get('zones covered', 0) != c.get('mapped zones', -1):
        ctx.inconclusive.append('zones covered %s != mapped %s' % (c.get('zones covered'), c.get('mapped zones')))
    if c.get('instants: ambiguous-local-time', 0) < 50 or c.get('instants: skipped-local-time', 0) < 50:
        ctx.inconclusive.append('too few ambiguous / skipped local times hit')
    if c.get('foreign values tried', 0) < 200:
        ctx.inconclusive.append('too few foreign tz values tried')
