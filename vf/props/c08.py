"""C08 - no string payload can alter grid structure (escaping is injective and contained)."""
import itertools
import random

from vf import domain as D

PROP = 'C08'
RULE = ('payload strings are placed in every text-carrying position (str / Uri / Ref display / XStr payload cell, grid-meta '
        'and column-meta value, list element, dict value, cell of a nested grid) of a sentinel grid followed by a second '
        'grid, dumped and parsed by the real code in both formats; the number of grids, rows and cells, the sentinel '
        'neighbours and the payload itself (kind and content) are compared with what was dumped. Group testing: one grid '
        'carries 256 payloads; a failing group is bisected down to single payloads which are re-run alone. Payload sets: '
        '(a) every code point U+0000..U+10FFFF as a one-character string (thorough: all positions; quick: whole BMP + one per '
        '256-block above it for the four scalar kinds in ZINC, everything in JSON), (b) every string of length <= 3 (quick: 2) '
        'over a 27-symbol metacharacter alphabet, (c) type-prefix / literal look-alikes, (d) seeded random long strings. '
        'distinct = (payload, position, format); non-trivial = all')
ASSUME = ['comparison is plain string / attribute equality on what comes back', 'lone surrogates are exercised on the str path only',
          'an empty Uri is not generated (the JSON form u: cannot carry it)']

POSITIONS = ['str-cell', 'uri-cell', 'refdis-cell', 'xstr-cell', 'grid-meta', 'col-meta', 'list-elem', 'dict-value', 'nested-cell']
SCALAR_POS = ['str-cell', 'uri-cell', 'refdis-cell', 'xstr-cell']
META = ['"', '\\', '$', '`', ',', '\n', '\r', '\t', '\b', '\f', '\x00', '\x1f', '\x7f', u'\u0085', u'\u2028', '>', '<', '[', ']',
        '{', '}', '(', ')', ':', '@', 'N', ' ']
LOOKALIKES = ['n:1', 'm:', 'x:', '-:', 'z:', 'r:a b', 's:', 's:x', 't:2020-01-01T00:00:00Z UTC', 'u:x', 'b:x', 'c:1,2', 'd:2020-01-01',
              'h:12:00', 'x:hex:00', 'n:INF', 'N', 'NA', 'M', 'R', 'T', 'F', 'NaN', 'INF', '1', '1kg', '@ref', 'Bin(x)', 'C(1,2)',
              '2020-01-01', '[1]', '{a}', '<<', '>>', '<<ver:"3.0"\na\n1\n>>', 'ver:"3.0"', '\\u0041', '\\n', '\\\\', '\\"', '\\$', '\\`',
              'u0041', '\n\n', '\n\nver:"3.0"\nx\n1\n', '\r\n\r\n', 'a\n', '\na', ' ', '  ', ' a ', '",', '","', '`,`', '")', '")\n',
              '\\', '\\\\n', '$a', '${a}', '"]', '"}', '">>']


def make_value(hszinc, pos, p):
    if pos in ('str-cell', 'grid-meta', 'col-meta', 'list-elem', 'dict-value', 'nested-cell'):
        return p
    if pos == 'uri-cell':
        return hszinc.Uri(p)
    if pos == 'refdis-cell':
        return hszinc.Ref('r', p)
    if pos == 'xstr-cell':
        return hszinc.XStr('Type', p)
    raise AssertionError(pos)


def same_value(hszinc, pos, p, v):
    """None when v is the payload back in its kind, else a symptom."""
    if pos == 'uri-cell':
        if not isinstance(v, hszinc.Uri):
            return 'kind-changed:uri>' + type(v).__name__
        return None if str.__eq__(v, p) else 'payload-changed'
    if pos == 'refdis-cell':
        if not isinstance(v, hszinc.Ref):
            return 'kind-changed:ref>' + type(v).__name__
        if v.name != 'r':
            return 'neighbour-changed'
        return None if (v.has_value and v.value == p and type(v.value) is str) else 'payload-changed'
    if pos == 'xstr-cell':
        if not isinstance(v, hszinc.XStr):
            return 'kind-changed:xstr>' + type(v).__name__
        return None if (v.encoding == 'Type' and v.data == p) else 'payload-changed'
    if type(v) is not str:
        return 'kind-changed:str>' + type(v).__name__
    return None if v == p else 'payload-changed'


def build(hszinc, pos, payloads, ver):
    """Grid carrying the payloads + the sentinel grid that follows it in the document."""
    L, R = 'L', 7.0
    if pos in ('grid-meta',):
        g = hszinc.Grid(version=ver, metadata=dict([('m0', L)] + [('p%d' % i, p) for i, p in enumerate(payloads)] + [('mz', R)]),
                        columns=[('a', [])])
        g.append({'a': L})
    elif pos == 'col-meta':
        g = hszinc.Grid(version=ver, columns=[('a', [('c0', L)] + [('p%d' % i, p) for i, p in enumerate(payloads)] + [('cz', R)]),
                                              ('b', [])])
        g.append({'a': L, 'b': R})
    else:
        g = hszinc.Grid(version=ver, columns=[('p', []), ('r', [])])
        g.append({'p': L, 'r': R})
        for p in payloads:
            if pos == 'list-elem':
                v = [L, p, R]
            elif pos == 'dict-value':
                v = {'k0': L, 'kv': p, 'k2': R}
            elif pos == 'nested-cell':
                v = hszinc.Grid(version='3.0', columns=[('x', []), ('y', [])])
                v.append({'x': p, 'y': R})
            else:
                v = make_value(hszinc, pos, p)
            g.append({'p': v, 'r': R})
        g.append({'p': L, 'r': R})
    tail = hszinc.Grid(version=ver, columns=[('t', [])])
    tail.append({'t': 'TAIL'})
    return g, tail


def check(hszinc, pos, payloads, ver, mode):
    """Returns None or (symptom, index|None, detail)."""
    L, R = 'L', 7.0
    g, tail = build(hszinc, pos, payloads, ver)
    try:
        text = hszinc.dump([g, tail], mode=mode)
    except Exception as e:
        return ('dump-raises:' + type(e).__name__, None, str(e)[:120])
    try:
        back = hszinc.parse(text, mode=mode, single=False)
    except Exception as e:
        return ('parse-raises:' + type(e).__name__, None, str(e)[:120])
    if not isinstance(back, list) or len(back) != 2:
        return ('grid-count', None, '2 grids dumped, %r parsed' % (len(back) if isinstance(back, list) else back))
    b, t = back
    if len(t) != 1 or list(t.column.keys()) != ['t'] or t[0].get('t') != 'TAIL':
        return ('following-grid-changed', None, 'the grid after the payload grid changed')
    if list(b.column.keys()) != list(g.column.keys()):
        return ('column-count', None, 'columns %r' % (list(b.column.keys()),))
    if pos == 'grid-meta':
        keys = list(b.metadata.keys())
        if keys != list(g.metadata.keys()):
            return ('cell-count', None, 'metadata keys %d vs %d' % (len(keys), len(g.metadata)))
        if b.metadata['m0'] != L or b.metadata['mz'] != R or len(b) != 1:
            return ('neighbour-changed', None, 'sentinel metadata changed')
        for i, p in enumerate(payloads):
            s = same_value(hszinc, pos, p, b.metadata['p%d' % i])
            if s:
                return (s, i, '%r came back as %r' % (p, b.metadata['p%d' % i]))
        return None
    if pos == 'col-meta':
        cm = b.column['a']
        keys = list(cm.keys())
        if keys != list(g.column['a'].keys()):
            return ('cell-count', None, 'column metadata keys %d vs %d' % (len(keys), len(g.column['a'])))
        if cm['c0'] != L or cm['cz'] != R or len(b) != 1 or len(b.column['b']) != 0:
            return ('neighbour-changed', None, 'sentinel column metadata changed')
        for i, p in enumerate(payloads):
            s = same_value(hszinc, pos, p, cm['p%d' % i])
            if s:
                return (s, i, '%r came back as %r' % (p, cm['p%d' % i]))
        return None
    if len(b) != len(payloads) + 2:
        return ('row-count', None, '%d rows dumped, %d parsed' % (len(payloads) + 2, len(b)))
    for ri in (0, len(b) - 1):
        if b[ri].get('p') != L or b[ri].get('r') != R:
            return ('neighbour-changed', None, 'sentinel row %d changed: %r' % (ri, b[ri]))
    for i, p in enumerate(payloads):
        row = b[i + 1]
        if set(row.keys()) - {'p', 'r'}:
            return ('cell-count', i, 'row has keys %r' % (sorted(row.keys()),))
        if row.get('r') != R:
            return ('neighbour-changed', i, 'right neighbour of %r is %r' % (p, row.get('r')))
        v = row.get('p')
        if pos == 'list-elem':
            if not isinstance(v, list) or len(v) != 3:
                return ('cell-count', i, 'list came back as %r' % (v,))
            if v[0] != L or v[2] != R:
                return ('neighbour-changed', i, 'list neighbours %r' % (v,))
            v = v[1]
        elif pos == 'dict-value':
            if not isinstance(v, dict) or sorted(v.keys()) != ['k0', 'k2', 'kv']:
                return ('cell-count', i, 'dict came back as %r' % (v,))
            if v['k0'] != L or v['k2'] != R:
                return ('neighbour-changed', i, 'dict neighbours %r' % (v,))
            v = v['kv']
        elif pos == 'nested-cell':
            if not isinstance(v, hszinc.Grid) or len(v) != 1 or list(v.column.keys()) != ['x', 'y']:
                return ('cell-count', i, 'nested grid came back as %r' % (type(v).__name__,))
            if v[0].get('y') != R:
                return ('neighbour-changed', i, 'nested neighbour %r' % (v[0],))
            v = v[0].get('x')
        s = same_value(hszinc, pos, p, v)
        if s:
            return (s, i, '%r came back as %r' % (p, v))
    return None


def bisect(hszinc, pos, payloads, ver, mode, out, cap=24):
    """Find individual offending payloads of a failing group."""
    if len(out) >= cap:
        return
    if len(payloads) == 1:
        r = check(hszinc, pos, payloads, ver, mode)
        if r:
            out.append((payloads[0], r))
        return
    mid = len(payloads) // 2
    for half in (payloads[:mid], payloads[mid:]):
        if check(hszinc, pos, half, ver, mode):
            bisect(hszinc, pos, half, ver, mode, out, cap)


def run_group(ctx, hszinc, pos, payloads, ver, mname, label):
    mode = hszinc.MODE_ZINC if mname == 'zinc' else hszinc.MODE_JSON
    ctx.count('groups run')
    ctx.count('payloads %s %s %s' % (label, pos, mname), len(payloads))
    ctx.evaluations += len(payloads)
    r = check(hszinc, pos, payloads, ver, mode)
    if r is None:
        return
    ctx.count('groups bisected')
    bad = []
    bisect(hszinc, pos, payloads, ver, mode, bad)
    if not bad:
        # fails only in combination: report the group symptom with the shortest failing prefix
        ctx.violation({'part': 'payload', 'format': mname, 'position': pos, 'kind': 'group', 'symptom': r[0],
                       'features': ['only-in-combination', 'ver=' + ver]},
                      'a group of %d payloads fails (%s: %s) though each payload alone passes' % (len(payloads), r[0], r[2]),
                      {'pos': pos, 'ver': ver, 'mode': mname, 'payloads': [D._enc_s(p) for p in payloads[:300]]})
        return
    for p, res in bad:
        from vf import minimize as M
        p2 = M.shrink_text(p, lambda t: (check(hszinc, pos, [t], ver, mode) or (None,))[0] == res[0]) if len(p) > 1 else p
        res2 = check(hszinc, pos, [p2], ver, mode) or res
        ctx.violation({'part': 'payload', 'format': mname, 'position': pos, 'kind': pos.split('-')[0],
                       'symptom': res2[0], 'features': sorted(D.text_features(p2) | {'ver=' + ver})},
                      'payload %r in %s (%s, ver %s): %s: %s' % (p2, pos, mname, ver, res2[0], res2[2]),
                      {'pos': pos, 'ver': ver, 'mode': mname, 'payloads': [D._enc_s(p2)]})


def scalar_api(ctx, hszinc, payloads, label):
    """The same payloads through the scalar-level entry points: dump_scalar -> parse_scalar, text and bytes input."""
    import json as _json
    for pos in SCALAR_POS:
        for mname, mode in (('zinc', hszinc.MODE_ZINC), ('json', hszinc.MODE_JSON)):
            n = 0
            for p in payloads:
                if pos == 'uri-cell' and p == '':
                    continue
                ver = '3.0'
                v = make_value(hszinc, pos, p)
                n += 1
                try:
                    text = hszinc.dump_scalar(v, mode=mode, version=hszinc.Version(ver))
                    forms = [text]
                    if isinstance(text, str) and not any(0xd800 <= ord(c) <= 0xdfff for c in text):
                        forms.append(text.encode('utf-8'))
                    if mname == 'json' and isinstance(text, str):
                        forms.append(_json.dumps(text))           # the JSON-text form of the same scalar
                    bad = None
                    for form in forms:
                        back = hszinc.parse_scalar(form, mode=mode, version=ver)
                        bad = same_value(hszinc, pos, p, back)
                        if bad:
                            bad = (bad, '%r -> %r -> %r' % (p, form, back))
                            break
                except Exception as e:   # noqa
                    bad = ('scalar-api-raises:' + type(e).__name__, '%r: %s' % (p, str(e)[:100]))
                if bad:
                    ctx.violation({'part': 'scalar-api', 'format': mname, 'position': pos, 'kind': pos.split('-')[0], 'symptom': bad[0],
                                   'features': sorted(D.text_features(p))},
                                  'scalar API: payload %s' % bad[1], {'pos': pos, 'ver': ver, 'mode': mname, 'payloads': [D._enc_s(p)], 'scalar': True})
                    break
            ctx.count('scalar-API round trips %s %s %s' % (label, pos, mname), n)
            ctx.evaluations += n
            ctx.cls('scalar-api', pos, mname, label)


def codepoints(lo, hi, step=1):
    return [chr(c) for c in range(lo, hi, step)]


def shards(tier, seed):
    out = []
    if tier == 'quick':
        # (a) ZINC: BMP exhaustively + one per 256-block above, four scalar kinds; JSON: everything, all positions
        for pos in SCALAR_POS:
            for k in range(8):
                out.append({'part': 'cp', 'pos': pos, 'mode': 'zinc', 'lo': k * 0x2000, 'hi': (k + 1) * 0x2000, 'step': 1})
            out.append({'part': 'cp', 'pos': pos, 'mode': 'zinc', 'lo': 0x10000, 'hi': 0x110000, 'step': 256})
        for pos in POSITIONS:
            out.append({'part': 'cp', 'pos': pos, 'mode': 'json', 'lo': 0, 'hi': 0x110000, 'step': 1 if pos in SCALAR_POS else 16})
        for pos in POSITIONS:
            if pos not in SCALAR_POS:
                out.append({'part': 'cp', 'pos': pos, 'mode': 'zinc', 'lo': 0, 'hi': 0x3000, 'step': 3 if pos.endswith('meta') else 8})
        out.append({'part': 'meta', 'maxlen': 2, 'positions': POSITIONS[:5], 'modes': ['zinc', 'json']})
        out.append({'part': 'meta', 'maxlen': 2, 'positions': POSITIONS[5:7], 'modes': ['zinc', 'json']})
        out.append({'part': 'meta', 'maxlen': 2, 'positions': POSITIONS[7:], 'modes': ['zinc', 'json']})
        out.append({'part': 'look', 'positions': POSITIONS, 'modes': ['zinc', 'json'], 'random': 300})
        for k in range(4):
            out.append({'part': 'scalar-cp', 'lo': k * 0x4000, 'hi': (k + 1) * 0x4000, 'step': 1})
        out.append({'part': 'scalar-cp', 'lo': 0x10000, 'hi': 0x110000, 'step': 64})
    else:
        for pos in POSITIONS:
            for k in range(17):
                out.append({'part': 'cp', 'pos': pos, 'mode': 'zinc', 'lo': k * 0x10000, 'hi': (k + 1) * 0x10000, 'step': 1})
            out.append({'part': 'cp', 'pos': pos, 'mode': 'json', 'lo': 0, 'hi': 0x110000, 'step': 1})
        for pos in POSITIONS:
            out.append({'part': 'meta', 'maxlen': 3, 'positions': [pos], 'modes': ['zinc']})
        out.append({'part': 'meta', 'maxlen': 3, 'positions': POSITIONS, 'modes': ['json']})
        out.append({'part': 'look', 'positions': POSITIONS, 'modes': ['zinc', 'json'], 'random': 4000})
        for k in range(17):
            out.append({'part': 'scalar-cp', 'lo': k * 0x10000, 'hi': (k + 1) * 0x10000, 'step': 1})
    return out


def versions_for(pos):
    return ['3.0'] if pos in ('xstr-cell', 'list-elem', 'dict-value', 'nested-cell') else ['2.0', '3.0']


def run_shard(spec, ctx):
    import hszinc
    G = 256
    if spec['part'] == 'cp':
        pos, mname = spec['pos'], spec['mode']
        cps = codepoints(spec['lo'], spec['hi'], spec['step'])
        if pos == 'uri-cell':
            pass
        vers = versions_for(pos)
        for gi in range(0, len(cps), G):
            group = cps[gi:gi + G]
            ver = vers[(gi // G) % len(vers)]
            run_group(ctx, hszinc, pos, group, ver, mname, 'code points')
            for p in group[:1]:
                ctx.distinct.add(hash((pos, mname, p)) & 0xffffffffffff)
        ctx.count('code points visited %s %s' % (pos, mname), len(cps))
        ctx.cls('code-points', pos, mname)
        # distinct: one per payload would be millions of hashes; count them arithmetically instead
        ctx.count('distinct single-code-point cases', len(cps))
        if spec['lo'] == 0:
            ctx.sample({'position': pos, 'format': mname, 'payloads': 'U+%04X..U+%04X step %d' % (spec['lo'], spec['hi'] - 1, spec['step']),
                        'example_text': hszinc.dump(build(hszinc, pos, ['"', '\n', u'\u20ac'], vers[-1])[0], mode=hszinc.MODE_ZINC if mname == 'zinc' else hszinc.MODE_JSON)[:300]})
    elif spec['part'] == 'scalar-cp':
        cps = codepoints(spec['lo'], spec['hi'], spec['step'])
        scalar_api(ctx, hszinc, cps, 'code points')
        ctx.count('scalar-API code points visited', len(cps))
        ctx.sample({'scalar_api': 'dump_scalar -> parse_scalar for U+%04X..U+%04X step %d, 4 kinds x 2 formats x text/bytes input' % (
            spec['lo'], spec['hi'] - 1, spec['step'])})
    elif spec['part'] == 'meta':
        strings = []
        for n in range(1, spec['maxlen'] + 1):
            strings += [''.join(t) for t in itertools.product(META, repeat=n)]
        strings += ['u0041' + m for m in META] + ['\\u0041', '\\' + 'u0041', 'a\\u0041b']
        for pos in spec['positions']:
            for mname in spec['modes']:
                vers = versions_for(pos)
                for gi in range(0, len(strings), G):
                    run_group(ctx, hszinc, pos, strings[gi:gi + G], vers[(gi // G) % len(vers)], mname, 'metachar strings')
                ctx.count('distinct metachar-string cases', len(strings))
                ctx.cls('metachar', pos, mname, 'len<=%d' % spec['maxlen'])
        if 'str-cell' in spec['positions']:
            scalar_api(ctx, hszinc, strings, 'metachar strings')
        ctx.sample({'metachar_strings': len(strings), 'alphabet': [repr(m) for m in META]})
    else:
        r = random.Random(ctx.seed * 1000003 + 808)
        gen = D.Gen(r)
        rnd = [gen.text(40, surrogates=True) or 'x' for _ in range(spec['random'])]
        for pos in spec['positions']:
            for mname in spec['modes']:
                vers = versions_for(pos)
                payloads = list(LOOKALIKES) + D.STR_CORE[1:] + rnd
                if pos == 'uri-cell':
                    payloads = [p for p in payloads if p != '']
                for gi in range(0, len(payloads), 64):
                    run_group(ctx, hszinc, pos, payloads[gi:gi + 64], vers[(gi // 64) % len(vers)], mname, 'look-alikes+random')
                ctx.count('distinct look-alike/random cases', len(payloads))
                ctx.cls('lookalike', pos, mname)
        scalar_api(ctx, hszinc, list(LOOKALIKES) + D.STR_CORE + rnd[:200] + [p + ws for p in ('', 'a', ' ') for ws in
                   (' ', '\t', '\n', '\r', '\x0b', '\x0c', '\x1c', '\x1f', u'\x85', u'\xa0', u'\u2028', u'\u3000', '  ')] +
                   [ws + 'a' for ws in (' ', '\t', '\n', u'\xa0', u'\u2028')], 'look-alikes+random+edge-whitespace')
        ctx.sample({'lookalikes': LOOKALIKES[:12]})


def replay(case, ctx):
    import hszinc
    payloads = [D._dec_s(p) for p in case['payloads']]
    if case.get('scalar'):
        scalar_api(ctx, hszinc, payloads, 'replay')
        return
    run_group(ctx, hszinc, case['pos'], payloads, case['ver'], case['mode'], 'replay')


def finish(ctx, merged):
    c = merged['counters']
    total = 0x110000
    full = {}
    for k, v in c.items():
        if k.startswith('code points visited '):
            full[k[len('code points visited '):]] = v
    merged['extra'] = {'code_points_visited': full,
                       'exhaustive_code_point_subspaces': sorted(k for k, v in full.items() if v >= total)}
    merged['exhaustive'] = all(v >= total for v in full.values()) and len(full) == 2 * len(POSITIONS)
    # distinct cases counted arithmetically (millions of hashes would be kept otherwise)
    n = c.get('distinct single-code-point cases', 0) + c.get('distinct metachar-string cases', 0) + c.get('distinct look-alike/random cases', 0)
    merged['distinct_count'] = n
    merged['extra']['distinct_cases_counted'] = n
    if c.get('groups run', 0) < 500:
        ctx.inconclusive.append('fewer than 500 groups run')
    if not any(v >= 0x10000 for k, v in full.items() if k.endswith('zinc')):
        ctx.inconclusive.append('no ZINC position covered the BMP')
