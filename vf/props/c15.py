"""C15 - lookup by id always reflects the rows currently in the grid."""
import itertools
import random

from vf import gridops as G
from vf.props import c14

PROP = 'C15'
RULE = ('operation histories (insert/append/extend/+=/item assignment/del index+slice/pop/remove/reverse/clear, '
        'continue on a slice or on a filtered grid, in-place id change + reindex(), interleaved lookups that build the '
        'lazy index) over rows whose ids are str / int / Ref / Ref-with-display / duplicated / absent; after each '
        'history grid[key] and grid.get(key, D) for a 13-key universe are compared with a scan of the rows currently '
        'in the grid (identity). Exhaustive to a depth bound + seeded random histories. distinct = history; '
        'non-trivial = history removes, replaces or derives')
ASSUME = ['scan-based model: any current row whose str(id) equals str(key) is an acceptable answer (duplicates)',
          'numeric keys are positional and are not judged', 'mutating row["id"] in place requires reindex() as documented']


def alphabet(rows, idx=(0, 1, -1)):
    ops = []
    for r in rows:
        ops.append(['append', r])
        for i in idx:
            ops.append(['insert', i, r])
            ops.append(['set', i, r])
        ops.append(['remove', r])
    ops += [['extend', [rows[0], rows[-1]]], ['iadd', [rows[1 % len(rows)]]],
            # a batch that fails part-way (non-dict row): the rows accepted before the failure are in the grid
            ['extend', [rows[0], 5]], ['iadd', [rows[-1], 5, rows[0]]], ['extend', [rows[-1], rows[0], 5]]]
    for i in idx:
        ops.append(['del', i])
    ops += [['delslice', 0, 1, None], ['delslice', 1, None, None], ['delslice', None, None, 2],
            ['pop'], ['popi', 0], ['reverse'], ['clear'], ['slice', 0, 2], ['slice', 1, None], ['slice', None, None], ['filter', 'id'],
            # continue on the parent and keep the slice aside / the other way round: the two grids are independent
            ['fork', None, None], ['fork', 0, 2],
            ['filter', 'v'], ['lookup', 'x1'], ['getlookup', 'never'], ['setid', 0, 'z9'], ['setid', -1, 'x1'],
            # a filter evaluated on the grid in between (following a reference to a row with a plain-string id; by id; by tag)
            ['evalfilter', 'ref->v'], ['evalfilter', 'id == @x1 or ref->id'], ['append', 13]]
    return ops


def nontrivial(hist):
    return any(o[0] in ('set', 'del', 'delslice', 'pop', 'popi', 'remove', 'clear', 'slice', 'filter', 'setid', 'reverse', 'fork')
               for o in hist)


def exec_history(hszinc, hist, version=None, counts=None, every=False):
    """Returns None or (symptom, idkind, what, state)."""
    st = G.State(hszinc, version)
    l = st.l
    for step, op in enumerate(hist):
        exp, alts, l = G.model_apply(l, op, st.pool)
        got = G.real_apply(st, op)
        if (got is None) != (exp is None) or (exp and got not in exp):
            # list-behaviour disagreement: C14's business; the lookup oracle cannot continue
            return ('mutation-' + ('raises:%s' % got if got else 'accepted'), 'none',
                    'step %d %r: grid %s, list model %s' % (step, op, got or 'accepted', '/'.join(sorted(exp)) if exp else 'accepts'), st)
        if exp:
            now = list(st.g)
            ok = [s for s in (alts or [l]) if G.rows_identical(now, s)]
            if not ok:
                return ('mutation-refused-but-changed', 'none', 'step %d %r' % (step, op), st)
            l[:] = ok[-1]
        if every or step == len(hist) - 1:
            box = [0]
            probs = G.observe_lookup(st, l, hszinc, box)
            if counts is not None:
                counts['lookups'] += box[0]
            if probs:
                sym, idk, what = probs[0]
                return (sym, idk, 'after step %d %r: %s' % (step, op, what), st)
            # the grids left behind by a derivation: untouched since, so their lookups still answer from their own rows
            for other, rows_then, tag in st.others:
                if not G.rows_identical(list(other), rows_then):
                    return ('other-grid-changed', 'none', 'after step %d %r: the %s now has rows %r, had %r' % (
                        step, op, tag, list(other), rows_then), st)
                probs = G.observe_lookup(_Holder(other), rows_then, hszinc, box)
                if counts is not None:
                    counts['lookups on grids left behind'] = counts.get('lookups on grids left behind', 0) + 1
                if probs:
                    sym, idk, what = probs[0]
                    st.derived.append(tag)
                    return (sym, idk, 'after step %d %r, on the %s (not operated on since): %s' % (step, op, tag, what), st)
    return None


class _Holder(object):
    def __init__(self, g):
        self.g = g


def run_history(ctx, hszinc, hist, version=None, every=False):
    counts = {'lookups': 0}
    res = exec_history(hszinc, hist, version, counts, every)
    ctx.count('lookups compared', counts['lookups'])
    ctx.count('lookup sweeps on grids left behind by slice/filter/fork', counts.get('lookups on grids left behind', 0))
    if res is None:
        return
    sym = res[0]
    from vf.core import shrink_list

    def still(h):
        r = exec_history(hszinc, h, version, None, True)
        return r is not None and r[0] == sym
    small = shrink_list(hist, still)
    r2 = exec_history(hszinc, small, version, None, True) or res
    st = r2[3]
    feats = {r2[1]} | set(st.derived)
    feats |= {'op=' + o[0] for o in small if o[0] in ('set', 'del', 'delslice', 'pop', 'popi', 'remove', 'clear',
                                                      'reverse', 'setid', 'extend', 'iadd')}
    feats.discard('none')
    ctx.violation({'part': 'history', 'kind': 'Grid', 'symptom': r2[0], 'features': sorted(feats)},
                  r2[2] + ' [minimised history %r]' % (small,), {'history': small, 'version': version})


def shards(tier, seed):
    n = 14
    out = [{'part': 'repo-tests'}]
    depth = 3 if tier == 'quick' else 4
    for i in range(n):
        out.append({'part': 'dfs', 'depth': depth, 'rows': [0, 2, 3, 9, 11] if depth == 3 else [0, 2, 9, 11], 'slice': [i, n]})
    if tier == 'quick':
        out += [{'part': 'random', 'n': 1500, 'len': 40, 'sub': j} for j in range(2)]
    else:
        for i in range(n):
            out.append({'part': 'dfs', 'depth': 3, 'rows': [0, 1, 2, 3, 4, 7, 9, 10, 11], 'slice': [i, n]})
        out += [{'part': 'random', 'n': 10000, 'len': 40, 'sub': j} for j in range(8)]
    return out


def run_shard(spec, ctx):
    import hszinc
    if spec['part'] == 'repo-tests':
        from vf import contracts
        contracts.repo_tests_shard(ctx, ['grid-index'], PROP)
        return
    if spec['part'] == 'dfs':
        ops = alphabet(spec['rows'], idx=(0, -1) if spec['depth'] >= 4 else (0, 1, -1))
        i, n = spec['slice']
        first = [op for j, op in enumerate(ops) if j % n == i]
        for d in range(1, spec['depth'] + 1):
            for f in first:
                for rest in itertools.product(ops, repeat=d - 1):
                    hist = [f] + list(rest)
                    ctx.case(hist, nontrivial=nontrivial(hist))
                    run_history(ctx, hszinc, hist)
                    for o in hist:
                        pass
        for o in ops:
            ctx.cls('op', o[0])
        for r in spec['rows']:
            ctx.cls('row', G.row_kind(r))
        ctx.sample({'history': [first[0], ops[3], ops[-4]], 'alphabet': len(ops), 'depth': spec['depth']})
    else:
        r = random.Random(ctx.seed * 1000003 + 41 + spec['sub'])
        ops = alphabet([0, 1, 2, 3, 4, 6, 7, 9, 10, 11], idx=(-2, -1, 0, 1, 2, 5))
        for hno in range(spec['n']):
            hist = [r.choice(ops) for _ in range(r.randint(1, spec['len']))]
            ver = r.choice([None, '2.0', '3.0'])
            ctx.case(hist, ver, nontrivial=nontrivial(hist))
            run_history(ctx, hszinc, hist, ver, every=r.random() < 0.5)
            if hno == 0:
                ctx.sample({'random_history': hist[:10]})
        for o in ops:
            ctx.cls('op', o[0])


def replay(case, ctx):
    import hszinc
    run_history(ctx, hszinc, case['history'], case.get('version'), every=True)


def finish(ctx, merged):
    if merged['counters'].get('lookups compared', 0) < 100000:
        ctx.inconclusive.append('fewer than 100000 lookups compared')
