"""C05 - the JSON reader decodes every well-formed Haystack-JSON grid correctly and never modifies its input."""
import copy
import json
import random
import sys

from vf import domain as D
from vf import hs
from vf import minimize as M
from vf import refjson

PROP = 'C05'
RULE = ('JSON grids written by an independent writer (vf/refjson.Writer: per value an independently chosen legal spelling - '
        'n:1 / n:1.0 / n:1e0 / raw JSON number / n:INF -INF NaN, raw booleans, x: or -: for Remove, h:hh:mm / hh:mm:ss / '
        'fractions, t: with Z or +hh:mm and with or without zone name, s: prefix or bare string, nested list/dict/grid, rows '
        'missing / null / [], rows omitting null columns, ver and name keys first or last) are parsed by the real hszinc.parse '
        'as str, bytes (utf-8, utf-16, latin-1), pre-decoded dict and list of dicts; the result is compared with the writer\'s '
        'input grid (six-decimal rule) and the pre-decoded object is compared with its own snapshot (content, key order, '
        'identity of nested containers). distinct = document; non-trivial = a non-canonical spelling was used')
ASSUME = ['vf/refjson.Writer only emits spellings of DESIGN.md Appendix A.2', 'standard json module',
          'bare strings are generated only when the second character is not a colon']
_me = sys.modules[__name__]

FORMS = ['str', 'str-unicode', 'bytes-utf8', 'bytes-utf16', 'bytes-latin1', 'object', 'array-object', 'array-str',
         'bytes-cp1252', 'bytes-shift_jis', 'bytes-utf16le', 'bytes-utf8', 'str', 'object-aliased']
BYTE_FORMS = {'bytes-utf8': 'utf-8', 'bytes-utf16': 'utf-16', 'bytes-latin1': 'latin-1', 'bytes-cp1252': 'cp1252',
              'bytes-shift_jis': 'shift_jis', 'bytes-utf16le': 'utf-16-le'}


def encode_for(obj, cs):
    """The JSON text of obj as bytes in charset cs, every character the charset can carry written raw (the others as
    \\uXXXX escapes, which JSON allows inside strings - the only place a non-ASCII character can occur)."""
    text = json.dumps(obj, ensure_ascii=False)
    out = []
    for ch in text:
        try:
            if ch.encode(cs).decode(cs) != ch:
                raise UnicodeError
            out.append(ch)
        except UnicodeError:
            o = ord(ch)
            if o > 0xffff:
                o -= 0x10000
                out.append('\\u%04x\\u%04x' % (0xd800 + (o >> 10), 0xdc00 + (o & 0x3ff)))
            else:
                out.append('\\u%04x' % o)
    return ''.join(out).encode(cs)


def expressible(n):
    for _, x in D.walk(n, 'top'):
        if x[0] == 'dt' and x[2] % 60:
            return False
        if x[0] == 'num' and x[2] is not None and isinstance(x[1], float) and (x[1] != x[1] or x[1] in (float('inf'), float('-inf'))):
            return False
    return True


def container_ids(o, out=None):
    if out is None:
        out = []
    if isinstance(o, dict):
        out.append(id(o))
        for v in o.values():
            container_ids(v, out)
    elif isinstance(o, list):
        out.append(id(o))
        for v in o:
            container_ids(v, out)
    return out


def judge_doc(ns, seed, script, form):
    import hszinc
    policy = None
    if isinstance(script, dict):
        policy, script = script, None
    w = refjson.Writer(random.Random(seed), script=script, policy=policy)
    array = form.startswith('array') or len(ns) != 1
    obj = w.doc(ns, array=array)
    art = {'trace': w.trace, 'log': w.log, 'snapshots': 0}
    if form == 'object-aliased' and isinstance(obj, dict) and obj.get('rows'):
        # a caller-built document may use one row object several times: it denotes that row several times
        obj['rows'].append(obj['rows'][-1])
        obj['rows'].insert(0, obj['rows'][-1])
        ns = [n[:4] + ((n[4][-1],) + n[4] + (n[4][-1],),) for n in ns]
    art['text'] = json.dumps(obj)
    single = not array
    try:
        if form in ('object', 'array-object', 'object-aliased'):
            keep = obj
            snap_text = json.dumps(obj)
            snap_ids = container_ids(obj)
            snap_copy = copy.deepcopy(obj)
            back = hszinc.parse(obj, mode=hs.JSON, single=single)
            art['snapshots'] = 1
            if json.dumps(keep) != snap_text or container_ids(keep) != snap_ids or keep != snap_copy:
                return 'input-mutated', 'pre-decoded input changed from %s to %s' % (snap_text[:200], json.dumps(keep)[:200]), art
        elif form in ('str', 'array-str'):
            back = hszinc.parse(json.dumps(obj), mode=hs.JSON, single=single)
        elif form == 'str-unicode':
            text = json.dumps(obj, ensure_ascii=False, separators=(',', ':'))
            back = hszinc.parse(text, mode=hs.JSON, single=single)
        else:
            cs = BYTE_FORMS[form]
            data = encode_for(obj, cs)
            art['bytes'] = data[:300]
            back = hszinc.parse(data, mode=hs.JSON, charset=cs, single=single)
    except Exception as e:
        return 'parse-raises:' + type(e).__name__, str(e)[:200], art
    if single:
        if not isinstance(back, hszinc.Grid):
            return 'shape-changed', 'single grid object gave %s' % type(back).__name__, art
        back = [back]
    if not isinstance(back, list) or len(back) != len(ns):
        return 'shape-changed', '%d grids in, %r out' % (len(ns), len(back) if isinstance(back, list) else back), art
    for i, (n, b) in enumerate(zip(ns, back)):
        try:
            got = hs.from_grid(b)
        except Exception as e:
            return 'result-unreadable:' + type(e).__name__, str(e)[:100], art
        d = D.grid_diff(n, got, True)
        if d:
            return d[1], 'grid %d %s: %s' % (i, d[0], d[2]), art
    return None, '', art


def report(ctx, ns, seed, form, sym, detail):
    # bound the effort on a badly broken tree: after 8 minimised reports of one symptom in this shard the further
    # occurrences are only counted (they would collapse into the same signatures anyway)
    key = 'minimised reports: ' + sym.split(':')[0]
    if ctx.counters[key] >= 8:
        ctx.count('further occurrences not minimised: ' + sym.split(':')[0])
        return
    ctx.count(key)

    cur = list(ns)
    for i in range(len(cur) - 1, -1, -1):
        if len(cur) > 1:
            c = cur[:i] + cur[i + 1:]
            if judge_doc(c, seed, None, form)[0] == sym:
                cur = c
    if form != 'str' and judge_doc(cur, seed, None, 'str' if len(cur) == 1 else 'array-str')[0] == sym:
        form = 'str' if len(cur) == 1 else 'array-str'
    s0, d0, art = judge_doc(cur, seed, None, form)
    script = [i for _, i, _ in art['trace']]
    budget = 500
    for i in range(len(script)):
        if script[i] == 0 or budget <= 0:
            continue
        budget -= 1
        trial = script[:i] + [0] + script[i + 1:]
        if judge_doc(cur, seed, trial, form)[0] == sym:
            script = trial
    s1, d1, art1 = judge_doc(cur, seed, script, form)
    policy = {}
    for dim, i, o in art1['trace']:
        if i != 0:
            policy.setdefault(dim, o)
    if judge_doc(cur, seed, policy, form)[0] == sym:
        for gi in range(len(cur)):
            def fails(g):
                return judge_doc(cur[:gi] + [g] + cur[gi + 1:], seed, policy, form)[0]
            try:
                cur[gi] = M.minimise(cur[gi], fails, sym)[0]
            except Exception:
                pass
        for dim in sorted(policy):
            trial = dict((k, v) for k, v in policy.items() if k != dim)
            if judge_doc(cur, seed, trial, form)[0] == sym:
                policy = trial
        script = policy
        s1, d1, art1 = judge_doc(cur, seed, policy, form)
    feats = set('%s=%s' % (dim, o) for (dim, i, o) in art1['trace'] if i != 0)
    if form not in ('str',):
        feats.add('form=' + form)
    culprits = []
    for g in cur:
        culprits += [(p, v) for p, v in M.sites(g) if v != M.SENT and v[0] not in ('list', 'dict', 'grid')]
    if len(culprits) == 1:
        pos, kind = M.position_of(culprits[0][0]), D.kind(culprits[0][1])
        feats |= set(D.features(culprits[0][1]))
    elif not culprits:
        pos, kind = 'structure', '-'
    else:
        pos, kind = 'multi', '+'.join(sorted({D.kind(v) for _, v in culprits}))
    feats.add('ver=' + str(cur[0][1]) if cur else 'empty')
    ctx.violation({'part': 'spelling', 'format': 'json', 'position': pos, 'kind': kind, 'symptom': sym, 'features': sorted(feats)},
                  '%s: %s | document %s' % (sym, d1, art1['text'][:400]),
                  {'ns': [D.enc(g) for g in cur], 'seed': seed, 'script': script, 'form': form})


def shards(tier, seed):
    n = 30000 if tier == 'quick' else 600000
    k = 16 if tier == 'quick' else 48
    return [{'part': 'docs', 'n': n // k + 1, 'sub': i} for i in range(k)] + \
        [{'part': 'scalars', 'n': 4000 if tier == 'quick' else 60000, 'sub': j} for j in range(2)] + \
        [{'part': 'cold-start', 'rounds': 10 if tier == 'quick' else 100}]


def scalar_part(spec, ctx):
    """hszinc.parse_scalar(obj, mode=MODE_JSON, version=...) on values written by the independent writer: text form and
    pre-decoded form (the latter must come back untouched, also when it is or contains a nested grid)."""
    import hszinc
    r = random.Random(ctx.seed * 1000003 + 550 + spec['sub'])
    gen = D.Gen(r)
    gen.zoneless = 0.3
    for i in range(spec['n']):
        ver = r.choice(['2.0', '3.0', '3.0'])
        n = gen.value(ver == '3.0')
        if not expressible(('list', (n,))):
            continue
        w = refjson.Writer(r)
        obj = w.val(n, ver == '3.0')
        for form in ('object', 'text'):
            ctx.case('scalar', json.dumps(obj), ver, form, nontrivial=n[0] in ('list', 'dict', 'grid'))
            ctx.count('scalar documents parsed')
            try:
                if form == 'object':
                    if isinstance(obj, str) and len(obj) >= 2 and obj[0] in '"[{' and obj[-1] in '"]}':
                        continue      # parse_scalar treats such a *string* as JSON text by design
                    snap_text = json.dumps(obj)
                    snap_ids = container_ids(obj)
                    back = hszinc.parse_scalar(obj, mode=hs.JSON, version=ver)
                    ctx.count('input snapshots compared')
                    if json.dumps(obj) != snap_text or container_ids(obj) != snap_ids:
                        ctx.violation({'part': 'scalar', 'format': 'json', 'position': 'scalar', 'kind': D.kind(n), 'symptom': 'input-mutated',
                                       'features': ['ver=' + ver]},
                                      'parse_scalar changed its pre-decoded argument from %s to %s' % (snap_text[:200], json.dumps(obj)[:200]),
                                      {'scalar': D.enc(n), 'ver': ver})
                        break
                else:
                    if not isinstance(obj, (list, dict, str)):
                        continue
                    back = hszinc.parse_scalar(json.dumps(obj), mode=hs.JSON, version=ver)
                d = D.diff(n, hs.from_hs(back), True)
                if d:
                    ctx.violation({'part': 'scalar', 'format': 'json', 'position': 'scalar', 'kind': D.kind(n), 'symptom': d[1],
                                   'features': sorted(D.features(n) | {'ver=' + ver, 'form=' + form})},
                                  'parse_scalar(%s): %s %s' % (json.dumps(obj)[:200], d[0], d[2]), {'scalar': D.enc(n), 'ver': ver})
                    break
                if n[0] in ('list', 'dict', 'grid', 'xstr'):
                    # the caller does what it likes with the result (here: wrecks it); the same input read again is unaffected
                    hs.wreck(back)
                    again = hszinc.parse_scalar(obj if form == 'object' else json.dumps(obj), mode=hs.JSON, version=ver)
                    ctx.count('scalars read twice')
                    d = D.diff(n, hs.from_hs(again), True)
                    if d:
                        ctx.violation({'part': 'history', 'format': 'json', 'position': 'scalar', 'kind': D.kind(n), 'symptom': 'second-reading-differs',
                                       'features': ['entry=parse_scalar', 'form=' + form]},
                                      'parse_scalar(%s) read again after the caller changed the first result: %s %s' % (
                                          json.dumps(obj)[:200], d[0], d[2]), {'scalar': D.enc(n), 'ver': ver})
                        break
            except Exception as e:   # noqa
                ctx.violation({'part': 'scalar', 'format': 'json', 'position': 'scalar', 'kind': D.kind(n), 'symptom': 'parse-raises:' + type(e).__name__,
                               'features': sorted(D.features(n) | {'ver=' + ver, 'form=' + form})},
                              'parse_scalar(%s) raised %s' % (json.dumps(obj)[:200], type(e).__name__), {'scalar': D.enc(n), 'ver': ver})
                break
    ctx.sample({'scalar_api': 'parse_scalar(obj | text, mode=MODE_JSON, version=...)', 'example': json.dumps(obj)[:200]})


def cold_start_part(spec, ctx):
    """The process's first zone lookups, from six threads at once, are readings of documents with named zones."""
    import pytz
    from vf.props import c17

    def work(Z, tz, t):
        loc = pytz.utc.localize(t).astimezone(tz)
        n = ('dt', (loc.year, loc.month, loc.day, loc.hour, loc.minute, loc.second, loc.microsecond),
             int(loc.utcoffset().total_seconds()), Z)
        g = ('grid', '3.0', (('when', n),), (('ts', ()),), ((('ts', n),),))
        sym, detail, art = judge_doc([g], 11, None, 'str')
        return [(sym, '%s | text %r' % (detail, art['text'][:160])) if sym else None]
    c17.cold_start(spec, ctx, work, {'part': 'cold-start', 'format': 'json', 'position': 'cell', 'kind': 'dt'})


def run_shard(spec, ctx):
    if spec['part'] == 'cold-start':
        return cold_start_part(spec, ctx)
    if spec['part'] == 'scalars':
        return scalar_part(spec, ctx)
    r = random.Random(ctx.seed * 1000003 + 505 + spec['sub'])
    gen = D.Gen(r)
    gen.zoneless = 0.3
    remembered = []
    for i in range(spec['n']):
        form = FORMS[i % len(FORMS)]
        k = 1 if not form.startswith('array') else r.choice([0, 1, 2, 3])
        ns = []
        while len(ns) < k:
            g = gen.grid(r.choice(['2.0', '3.0', '3.0']), small=r.random() < 0.5, maxcols=4, maxrows=4)
            if expressible(g):
                ns.append(g)
        seed = r.getrandbits(48)
        sym, detail, art = judge_doc(ns, seed, None, form)
        nonc = sum(1 for _, idx, _ in art['trace'] if idx != 0)
        ctx.case(art['text'], form, nontrivial=nonc > 0)
        ctx.count('documents parsed')
        ctx.count('input snapshots compared', art['snapshots'])
        ctx.count('form ' + form)
        for key, cnt in art['log'].items():
            ctx.count('choice ' + key, cnt)
            ctx.cls('choice', key)
        if sym:
            report(ctx, ns, seed, form, sym, detail)
        elif i < 2:
            ctx.sample({'document': art['text'][:500], 'form': form})
        if not sym and len(remembered) < 200:
            remembered.append((ns, seed, form))
    # history independence: the first documents again, in reverse order, after everything else this process has read
    for ns, seed, form in reversed(remembered):
        sym, detail, art = judge_doc(ns, seed, None, form)
        ctx.count('documents re-read at the end of the shard')
        if sym:
            ctx.violation({'part': 'history', 'format': 'json', 'position': 'document', 'kind': 'grid', 'symptom': 'reading-depends-on-history',
                           'features': ['form=' + form]}, 'a document that was read correctly at the start of the process now gives %s: %s | text %r' % (
                               sym, detail, art['text'][:300]), {'ns': [D.enc(g) for g in ns], 'seed': seed, 'script': None, 'form': form})
            break


def replay(case, ctx):
    if case.get('cold_start'):
        return cold_start_part({'part': 'cold-start', 'rounds': 30}, ctx)
    if 'scalar' in case:
        import hszinc
        n = D.dec(case['scalar'])
        obj = refjson.Writer(None).val(n, case['ver'] == '3.0')
        snap = json.dumps(obj)
        try:
            back = hszinc.parse_scalar(obj, mode=hs.JSON, version=case['ver'])
            d = D.diff(n, hs.from_hs(back), True)
            if json.dumps(obj) != snap:
                d = ('', 'input-mutated', 'argument changed')
        except Exception as e:   # noqa
            d = ('', 'parse-raises:' + type(e).__name__, '')
        if d:
            ctx.violation({'part': 'scalar', 'format': 'json', 'position': 'scalar', 'kind': D.kind(n), 'symptom': d[1], 'features': []},
                          'parse_scalar: %s' % (d[2],), case)
        return
    ns = [D.dec(g) for g in case['ns']]
    sym, detail, art = judge_doc(ns, case['seed'], case.get('script'), case['form'])
    if sym:
        report(ctx, ns, case['seed'], case['form'], sym, detail)


def finish(ctx, merged):
    c = merged['counters']
    if c.get('documents parsed', 0) < 20000:
        ctx.inconclusive.append('documents parsed: %d' % c.get('documents parsed', 0))
    if c.get('input snapshots compared', 0) == 0:
        ctx.inconclusive.append('no pre-decoded input snapshot was compared')
    low = [k for k, v in c.items() if k.startswith('choice ') and v < 20]
    if low:
        ctx.inconclusive.append('spelling choices seen fewer than 20 times: %s' % ', '.join(sorted(low)[:8]))
