"""C19 - equality of Haystack values and grids is a lawful, kind-aware relation."""
import copy
import itertools
import random

from vf import domain as D

PROP = 'C19'
RULE = ('all ordered pairs of a value catalogue covering every kind x boundary payloads (each value built twice, '
        'independently): reflexivity, symmetry, complementarity of == / !=, no exception (except the documented '
        'unit-mismatch TypeError), kind-awareness of pairs involving an hszinc type, hash agreement of equal same-kind '
        'hashable values, singleton identity under copy/deepcopy; same-kind triples for transitivity; grids: each base '
        'grid vs faithful copies (==) and vs every single-position material mutation (False both ways, no exception). '
        'distinct = ordered pair / triple / (grid, mutation); non-trivial = the two operands are different values')
ASSUME = ['kind-aware expectation comes from vf.domain.diff (own comparator), not from hszinc',
          'not judged: pairs of two Python builtins; number vs Quantity (C20 says it compares the value); bool vs number; '
          'XStr across type names (pinned by the repository tests); reflexivity of nan payloads; hash law for unhashable kinds']

BUILTIN = ('null', 'bool', 'num', 'str', 'date', 'time', 'dt', 'list', 'dict')


def cat_nforms():
    c = []
    pick = {
        'num': [0, 1, -1, 1.0, 0.5, 2 ** 53, 1e22, 5e-324, float('inf'), float('nan')],
        'qty': [(0, 'kg'), (1, 'kg'), (1.0, 'kg'), (1, 'm'), (0.5, u'°C'), (float('nan'), 'kg'), (float('inf'), 'm'),
                (2 ** 53, '%'), (1, '%')],
        'str': ['', 'x', 'a', 'text/plain', 'http://x/', 'a b', u'é', '@a', '1'],
        'uri': ['x', 'a', 'http://x/', 'text/plain', u'é', ' '],
        'bin': ['x', 'a', 'text/plain', 'http://x/'],
        'ref': [('a', None), ('x', None), ('a', 'dis'), ('a', ''), ('a', 'a'), ('x', 'dis'), ('a', 'other')],
        'xstr': [('Type', 'x'), ('Type', 'y'), ('hex', 'deadbeef'), ('hex', '00'), ('b64', 'AQI='), ('Other', 'z'),
                 ('b64', '3q2+7w=='), ('b64', 'AA=='), ('hex', '0102')],    # the same bytes in the other encoding: equal values
        'date': [(2020, 1, 1), (2020, 1, 2), (1, 1, 1)],
        'time': [(0, 0, 0, 0), (12, 0, 0, 0), (12, 0, 0, 1)],
        'coord': [(0.0, 0.0), (1.0, 2.0), (1.0, 2.0000001), (-90.0, 180.0), (1, 2)],
    }
    c += [D.NULL, D.MARKER, D.REMOVE, D.NA, ('bool', True), ('bool', False)]
    for v in pick['num']:
        c.append(('num', v, None))
    for v, u in pick['qty']:
        c.append(('num', v, u))
    for k in ('str', 'uri', 'bin'):
        for s in pick[k]:
            c.append((k, s))
    for n, d in pick['ref']:
        c.append(('ref', n, d))
    for t, p in pick['xstr']:
        c.append(('xstr', t, p))
    for d in pick['date']:
        c.append(('date',) + d)
    for t in pick['time']:
        c.append(('time',) + t)
    for z, loc, off in D.DTS[:5]:
        c.append(('dt', loc, off, z))
    for x in pick['coord']:
        c.append(('coord',) + x)
    c.append(('list', ()))
    c.append(('list', (('num', 1, None), ('str', 'x'))))
    c.append(('list', (('uri', 'x'),)))
    c.append(('list', (('str', 'x'),)))
    c.append(('dict', ()))
    c.append(('dict', (('a', ('num', 1, 'kg')), ('b', D.MARKER))))
    c.append(('grid', '3.0', (), (('a', ()),), ((('a', ('num', 1, None)),),)))
    c.append(('grid', '3.0', (), (('a', ()),), ((('a', ('str', 'x')),),)))
    c.append(('grid', '3.0', (('m', D.MARKER),), (('a', ()), ('b', ())), ()))
    return c


def expected_eq(na, nb):
    """True / False / None (not judged) for a == b."""
    ka, kb = D.base_kind(na), D.base_kind(nb)
    if ka in BUILTIN and kb in BUILTIN:
        return None
    if ka == 'qty' or kb == 'qty':
        other = kb if ka == 'qty' else ka
        if other in ('num', 'bool'):
            return None           # compares the value (C20)
        if other == 'qty':
            if na[2] != nb[2]:
                return 'TypeError'
            if isinstance(na[1], float) and na[1] != na[1]:
                return None
            return na[1] == nb[1]
        return False
    if ka == 'xstr' and kb == 'xstr':
        if na[1] != nb[1]:
            return None           # pinned by tests: only the decoded data is compared
        return na[2] == nb[2]
    if ka == 'grid' and kb == 'grid':
        return None               # grids are judged in the grid part
    if ka == 'coord' and kb == 'coord':
        return float(na[1]) == float(nb[1]) and float(na[2]) == float(nb[2])
    if ka in ('list', 'dict') or kb in ('list', 'dict'):
        if ka != kb:
            return False
        return None               # element-wise builtin comparison
    d = D.diff(na, nb, False)
    return d is None


def outcome(fn):
    try:
        return ('value', fn())
    except Exception as e:    # noqa
        return ('raise', type(e).__name__)


def pair_check(ctx, hs, na, nb, a, b, a2):
    ka, kb = D.kind(na), D.kind(nb)
    case = {'a': D.enc(na), 'b': D.enc(nb)}
    feats = sorted({'left=' + ka, 'right=' + kb})

    def viol(law, what):
        ctx.violation({'part': 'law', 'kind': '%s~%s' % tuple(sorted([ka, kb])), 'symptom': 'law:' + law, 'features': []},
                      what, case)
    eq = outcome(lambda: a == b)
    ne = outcome(lambda: a != b)
    qe = outcome(lambda: b == a)
    qn = outcome(lambda: b != a)
    ctx.count('pairs compared')
    ctx.cls(ka, kb)
    exp = expected_eq(na, nb)
    if exp == 'TypeError':
        ctx.count('unit-mismatch pairs (TypeError documented)')
        for o in (eq, ne, qe, qn):
            if o != ('raise', 'TypeError'):
                viol('unit-mismatch', 'Quantity %r vs %r: expected the documented TypeError, got %r' % (na, nb, o))
        return
    for name, o in (('==', eq), ('!=', ne), ('reflected ==', qe), ('reflected !=', qn)):
        if o[0] == 'raise':
            viol('no-raise', '%r %s %r raised %s' % (na, name, nb, o[1]))
            return
    for name, o in (('==', eq), ('!=', ne)):
        if not isinstance(o[1], bool):
            viol('bool-result', '%r %s %r returned %r' % (na, name, nb, o[1]))
            return
    if eq[1] != qe[1] or ne[1] != qn[1]:
        viol('symmetry', '%r vs %r: a==b %r, b==a %r, a!=b %r, b!=a %r' % (na, nb, eq[1], qe[1], ne[1], qn[1]))
    if ne[1] == eq[1]:
        viol('complement', '%r vs %r: == gives %r and != gives %r' % (na, nb, eq[1], ne[1]))
    if exp is not None:
        ctx.count('kind-aware expectations checked')
        if eq[1] != exp:
            viol('kind-aware-eq', '%r == %r gives %r, expected %r' % (na, nb, eq[1], exp))
        elif ne[1] != (not exp):
            viol('kind-aware-ne', '%r != %r gives %r, expected %r' % (na, nb, ne[1], not exp))
    # hash law: equal, same kind, both hashable
    if eq[1] is True and ka == kb:
        ha, hb = outcome(lambda: hash(a)), outcome(lambda: hash(b))
        if ha[0] == 'value' and hb[0] == 'value':
            ctx.count('equal same-kind pairs hashed')
            if ha[1] != hb[1]:
                viol('hash-eq', '%r == %r but hashes differ' % (na, nb))
        else:
            ctx.count('equal same-kind pairs unhashable (vacuous)')


def shards(tier, seed):
    out = [{'part': 'pairs', 'slice': [i, 4]} for i in range(4)]
    out.append({'part': 'singletons'})
    ng = 480 if tier == 'quick' else 6000
    for i in range(8):
        out.append({'part': 'grids', 'n': ng // 8 + 1, 'sub': i})
    return out


def mutations(n, r):
    """Yield (label, mutated N-form grid) differing materially from n in exactly one position."""
    _, ver, meta, cols, rows = n
    names = [c for c, _ in cols]
    if rows:
        yield 'row-count:drop', ('grid', ver, meta, cols, rows[:-1])
    yield 'row-count:add', ('grid', ver, meta, cols, rows + (((names[0], ('str', 'extra')),),))
    yield 'col-name', ('grid', ver, meta, ((names[0] + 'X', cols[0][1]),) + cols[1:],
                       tuple(tuple((c + 'X' if c == names[0] else c, v) for c, v in row) for row in rows))
    yield 'col-added', ('grid', ver, meta, cols + (('zzNew', ()),), rows)
    yield 'meta-name:add', ('grid', ver, meta + (('zzNewMeta', D.MARKER),), cols, rows)
    for ci, (c, cm) in enumerate(cols):
        if cm:
            # same number of column-metadata tags, one of them under another name
            ncm = ((cm[0][0] + 'X', cm[0][1]),) + cm[1:]
            yield 'colmeta-name:rename', ('grid', ver, meta, cols[:ci] + ((c, ncm),) + cols[ci + 1:], rows)
            yield 'colmeta-name:drop', ('grid', ver, meta, cols[:ci] + ((c, cm[1:]),) + cols[ci + 1:], rows)
            break
    if meta:
        yield 'meta-name:rename', ('grid', ver, ((meta[0][0] + 'X', meta[0][1]),) + meta[1:], cols, rows)
        yield 'meta-name:drop', ('grid', ver, meta[1:], cols, rows)
    for ri, row in enumerate(rows):
        drow = dict(row)
        for c in names:
            old = drow.get(c, D.NULL)
            for label, new in cell_mutations(old, r):
                nrow = tuple((cc, new if cc == c else drow[cc]) for cc in names if cc == c or cc in drow)
                yield 'cell:%s:%s>%s' % (label, D.kind(old), D.kind(new)), (
                    'grid', ver, meta, cols, rows[:ri] + (nrow,) + rows[ri + 1:])
    for mi, (k, v) in enumerate(meta):
        for label, new in cell_mutations(v, r):
            yield 'metaval:%s:%s>%s' % (label, D.kind(v), D.kind(new)), (
                'grid', ver, meta[:mi] + ((k, new),) + meta[mi + 1:], cols, rows)


OTHER_KIND = [('str', 'other'), ('num', 12345, None), ('uri', 'other'), D.MARKER, ('num', 3.5, 'kg'), ('bool', True),
              ('date', 2001, 2, 3), ('time', 1, 2, 3, 0), ('coord', 10.0, 20.0), ('ref', 'other', None), D.NULL,
              ('dt', (2020, 1, 1, 0, 0, 0, 0), 0, 'UTC'), ('bin', 'other')]


def cell_mutations(old, r):
    k = D.kind(old)
    # another kind (two picks), never one that Python itself treats as equal (bool vs number)
    picks = [x for x in OTHER_KIND if D.kind(x) != k and not ({D.kind(x), k} <= {'bool', 'num', 'qty'})
             and not ({D.kind(x), k} == {'num', 'qty'})]
    r.shuffle(picks)
    for x in picks[:2]:
        yield 'kind', x
    # a number and a Quantity of the same magnitude are different kinds of cell; so are two units
    if k == 'num' and not (isinstance(old[1], float) and old[1] != old[1]) and not isinstance(old[1], bool):
        yield 'kind', ('num', old[1], 'kg')
    if k == 'qty' and not (isinstance(old[1], float) and old[1] != old[1]):
        yield 'kind', ('num', old[1], None)
        yield 'content', ('num', old[1], 'otherUnit' if old[2] != 'otherUnit' else 'kg')
    # same kind, content beyond tolerance
    if k in ('num', 'qty'):
        v = old[1]
        if isinstance(v, float) and (v != v or v in (float('inf'), float('-inf'))):
            return
        if abs(v) < 1e15:
            yield 'content', ('num', v + 1, old[2])
    elif k in ('str', 'uri', 'bin'):
        yield 'content', (k, old[1] + 'x')
    elif k in ('ref', 'refdis'):
        yield 'content', ('ref', old[1] + 'x', old[2])
    elif k == 'bool':
        yield 'content', ('bool', not old[1])
    elif k == 'coord':
        yield 'content', ('coord', old[1], (old[2] + 1) if old[2] < 100 else old[2] - 1)
    elif k == 'date':
        yield 'content', ('date', old[1], old[2], 1 if old[3] != 1 else 2)
    elif k == 'time':
        yield 'content', ('time', old[1], (old[2] + 1) % 60, old[3], old[4])
    elif k == 'dt' and old[3] is not None and old[3] in ('UTC', 'GMT'):
        y, mo, d, h, mi, sec, us = old[1]
        yield 'content', ('dt', (y, mo, d, (h + 1) % 24, mi, sec, us), old[2], old[3])
    elif k == 'xstr':
        # (b64: in front - text after the padding would be ignored by a decoder, which is no material difference)
        yield 'content', ('xstr', old[1], old[2] + '00' if old[1] == 'hex' else 'AAAA' + old[2] if old[1] == 'b64' else old[2] + 'x')
    elif k == 'list':
        # one element more, one less, one changed (so that one list is a prefix of the other, or differs inside)
        yield 'content:longer', ('list', old[1] + (('str', 'extra'),))
        if old[1]:
            yield 'content:shorter', ('list', old[1][:-1])
            for label, new in cell_mutations(old[1][-1], r):
                if label.startswith('content'):
                    yield 'content:inside', ('list', old[1][:-1] + (new,))
                    break
    elif k == 'dict':
        yield 'content:longer', ('dict', old[1] + (('zzExtra', D.MARKER),))
        if old[1]:
            yield 'content:shorter', ('dict', old[1][:-1])
            yield 'content:renamed', ('dict', old[1][:-1] + ((old[1][-1][0] + 'X', old[1][-1][1]),))
            for label, new in cell_mutations(old[1][-1][1], r):
                if label.startswith('content'):
                    yield 'content:inside', ('dict', old[1][:-1] + ((old[1][-1][0], new),))
                    break
    elif k == 'grid':
        _, gv, gm, gc, gr = old
        yield 'content:longer', ('grid', gv, gm, gc, gr + (((gc[0][0], ('str', 'extra')),),))
        if gr:
            yield 'content:shorter', ('grid', gv, gm, gc, gr[:-1])
        yield 'content:meta', ('grid', gv, gm + (('zzNewMeta', D.MARKER),), gc, gr)


def run_shard(spec, ctx):
    import hszinc
    from vf import hs
    if spec['part'] == 'pairs':
        cat = cat_nforms()
        vals = [hs.to_hs(n) for n in cat]
        vals2 = [hs.to_hs(n) for n in cat]
        i, m = spec['slice']
        for ia, na in enumerate(cat):
            if ia % m != i:
                continue
            a, a2 = vals[ia], vals2[ia]
            # reflexivity (a against itself and against an independently built twin)
            nanp = D.base_kind(na) in ('num', 'qty') and isinstance(na[1], float) and na[1] != na[1]
            if not nanp and na[0] not in ('list', 'dict'):
                ctx.case('refl', D.enc(na), nontrivial=False)
                for name, x, y in (('self', a, a), ('twin', a, a2)):
                    eq, ne = outcome(lambda: x == y), outcome(lambda: x != y)
                    if eq != ('value', True) or ne != ('value', False):
                        ctx.violation({'part': 'law', 'kind': D.kind(na), 'symptom': 'law:reflexive', 'features': [name]},
                                      '%r compared with %s: == %r, != %r' % (na, name, eq, ne), {'a': D.enc(na), 'b': D.enc(na)})
                    if name == 'twin' and eq == ('value', True):
                        ha, hb = outcome(lambda: hash(x)), outcome(lambda: hash(y))
                        if ha[0] == 'value' and hb[0] == 'value':
                            ctx.count('equal same-kind pairs hashed')
                            if ha != hb:
                                ctx.violation({'part': 'law', 'kind': D.kind(na), 'symptom': 'law:hash-eq', 'features': []},
                                              'twin values of %r hash differently' % (na,), {'a': D.enc(na), 'b': D.enc(na)})
                        else:
                            ctx.count('equal same-kind pairs unhashable (vacuous)')
            for ib, nb in enumerate(cat):
                ctx.case('pair', D.enc(na), D.enc(nb), nontrivial=(ia != ib))
                pair_check(ctx, hs, na, nb, a, vals[ib] if ib != ia else a2, a2)
        if i == 0:
            # same-kind triples: transitivity of ==
            by = {}
            for n, v in zip(cat, vals):
                by.setdefault(D.base_kind(n), []).append((n, v))
            for k, items in by.items():
                if k in ('qty',):
                    items = [x for x in items if x[0][2] == 'kg']
                for (n1, v1), (n2, v2), (n3, v3) in itertools.product(items, repeat=3):
                    ctx.case('triple', D.enc(n1), D.enc(n2), D.enc(n3), nontrivial=len({n1, n2, n3}) == 3)
                    try:
                        if v1 == v2 and v2 == v3 and not (v1 == v3):
                            ctx.violation({'part': 'law', 'kind': k, 'symptom': 'law:transitive', 'features': []},
                                          '%r == %r == %r but first != third' % (n1, n2, n3),
                                          {'a': D.enc(n1), 'b': D.enc(n2), 'c': D.enc(n3)})
                    except Exception:
                        pass
                    ctx.count('same-kind triples')
            ctx.sample({'pair': [D.enc(cat[30]), D.enc(cat[40])], 'expected_eq': expected_eq(cat[30], cat[40])})
    elif spec['part'] == 'singletons':
        for name in ('MARKER', 'NA', 'REMOVE'):
            s = getattr(hszinc, name)
            for how, fn in (('copy', copy.copy), ('deepcopy', copy.deepcopy),
                            ('deepcopy-in-list', lambda x: copy.deepcopy([x])[0]),
                            ('deepcopy-in-dict', lambda x: copy.deepcopy({'k': x})['k']),
                            ('deepcopy-row-in-grid', None)):
                ctx.case('singleton', name, how)
                if fn is None:
                    g = hszinc.Grid(version='3.0', columns=[('a', [])])
                    g.append({'a': s})
                    got = copy.deepcopy(g)[0]['a']
                else:
                    got = fn(s)
                ctx.count('singleton copies')
                if got is not s:
                    ctx.violation({'part': 'law', 'kind': name.lower(), 'symptom': 'law:singleton', 'features': [how]},
                                  '%s of %s is a different object' % (how, name), {'name': name, 'how': how})
            if not (s == s) or (s != s) or hash(s) != hash(copy.deepcopy(s)):
                ctx.violation({'part': 'law', 'kind': name.lower(), 'symptom': 'law:reflexive', 'features': []},
                              '%s not equal to itself' % name, {'name': name})
            for other in ('MARKER', 'NA', 'REMOVE'):
                if other != name and (s == getattr(hszinc, other) or not (s != getattr(hszinc, other))):
                    ctx.violation({'part': 'law', 'kind': name.lower(), 'symptom': 'law:kind-aware-eq', 'features': []},
                                  '%s == %s' % (name, other), {'name': name})
        ctx.sample({'singleton': 'MARKER', 'deepcopy_is_same': copy.deepcopy(hszinc.MARKER) is hszinc.MARKER})
    else:
        r = random.Random(ctx.seed * 1000003 + 19 + spec['sub'])
        gen = D.Gen(r)
        if spec['sub'] == 0:
            # the repeated hour at the end of daylight saving: same zone, same wall clock, two instants an hour apart
            folds = [('Paris', (2020, 10, 25, 2, 30, 0, 0), 7200, 3600), ('New_York', (2021, 11, 7, 1, 30, 0, 0), -14400, -18000),
                     ('Sydney', (2021, 4, 4, 2, 30, 0, 0), 39600, 36000), ('London', (2020, 10, 25, 1, 15, 0, 0), 3600, 0),
                     ('Lord_Howe', (2021, 4, 4, 1, 45, 0, 0), 39600, 37800)]
            for zone, wall, off1, off2 in folds:
                d1, d2 = ('dt', wall, off1, zone), ('dt', wall, off2, zone)
                for ver in ('2.0', '3.0'):
                    for pos in (D.POSITIONS_2 if ver == '2.0' else D.POSITIONS_3):
                        try:
                            g1, g2 = hs.to_grid(D.sentinel_grid(d1, pos, ver)), hs.to_grid(D.sentinel_grid(d2, pos, ver))
                        except Exception:
                            continue
                        ctx.case('fold', zone, pos, ver)
                        ctx.count('repeated-hour pairs compared')
                        for direction, x, y in (('first==second', g1, g2), ('second==first', g2, g1)):
                            eq, ne = outcome(lambda: x == y), outcome(lambda: x != y)
                            if eq != ('value', False) or ne != ('value', True):
                                ctx.violation({'part': 'law', 'kind': 'grid', 'symptom': 'law:grid-differs-but-equal',
                                               'features': ['cell:content', 'kinds=dt~dt', 'repeated-hour']},
                                              'grids differing only in a date-time of the repeated hour at the end of daylight saving (%s %r, offsets '
                                              '%d and %d s: two instants) at %s: %s gives == %r, != %r' % (zone, wall, off1, off2, pos, direction, eq, ne),
                                              {'grid': D.enc(D.sentinel_grid(d1, pos, ver)), 'mutation': 'fold:%d' % off2})
        for gi in range(spec['n']):
            ver = r.choice(['2.0', '3.0'])
            n = gen.grid(ver, maxcols=3, maxrows=3)
            grid_case(ctx, hs, n, r)
            if gi == 0:
                ctx.sample({'base_grid': D.enc(n)})


def grid_case(ctx, hs, n, r, only=None):
    g = hs.to_grid(n)
    enc = D.enc(n)
    import hszinc
    copies = [('rebuilt', hs.to_grid(n)), ('deepcopy', copy.deepcopy(g)), ('self', g)]
    # its own round trip through either format (the statement's example of a faithful copy)
    for mname, mode in (('zinc', hszinc.MODE_ZINC), ('json', hszinc.MODE_JSON)):
        try:
            copies.append((mname + '-roundtrip', hszinc.parse(hszinc.dump(g, mode=mode), mode=mode)))
            ctx.count('round-trip copies compared')
        except Exception:
            ctx.count('round trip failed (C01/C02 business)')
    for how, other in copies:
        ctx.case('grid-copy', enc, how, nontrivial=False)
        eq, ne = outcome(lambda: g == other), outcome(lambda: g != other)
        ctx.count('grid vs faithful copy')
        has_nan = any(x[0] == 'num' and isinstance(x[1], float) and x[1] != x[1] for _, x in D.walk(n, 'top'))
        if has_nan:
            continue
        if eq != ('value', True) or ne != ('value', False):
            ctx.violation({'part': 'law', 'kind': 'grid', 'symptom': 'law:grid-copy-equal', 'features': [how]},
                          'grid vs its %s copy: == %r, != %r' % (how, eq, ne), {'grid': enc, 'mutation': None})
    for label, m in mutations(n, r):
        if only is not None and label != only:
            continue
        gm = hs.to_grid(m)
        ctx.case('grid-mut', enc, label)
        ctx.count('grid mutations tried')
        ctx.cls('grid-mutation', label.split(':')[0] + ':' + label.split(':')[1] if ':' in label else label)
        for direction, x, y in (('g==m', g, gm), ('m==g', gm, g)):
            eq, ne = outcome(lambda: x == y), outcome(lambda: x != y)
            lab = label.split(':')
            feats = [lab[0] + (':' + lab[1] if len(lab) > 1 else '')]
            kinds = lab[2] if len(lab) > 2 else '-'
            if eq[0] == 'raise' or ne[0] == 'raise':
                ctx.violation({'part': 'law', 'kind': 'grid', 'symptom': 'raises:%s' % (eq[1] if eq[0] == 'raise' else ne[1]),
                               'features': feats + ['kinds=' + kinds.replace('>', '~') if direction == 'g==m' else
                                                    'kinds=' + '~'.join(reversed(kinds.split('>')))]},
                              'grids differing by %s: %s raised (== %r, != %r)' % (label, direction, eq, ne),
                              {'grid': enc, 'mutation': label})
            elif eq[1] is not False or ne[1] is not True:
                ctx.violation({'part': 'law', 'kind': 'grid', 'symptom': 'law:grid-differs-but-equal',
                               'features': feats + ['kinds=' + '~'.join(sorted(kinds.split('>')))]},
                              'grids differing by %s compare equal (%s: == %r, != %r)' % (label, direction, eq[1], ne[1]),
                              {'grid': enc, 'mutation': label})


def replay(case, ctx):
    from vf import hs
    if str(case.get('mutation', '')).startswith('fold:'):
        return run_shard({'part': 'grids', 'n': 0, 'sub': 0}, ctx)
    if 'grid' in case:
        grid_case(ctx, hs, D.dec(case['grid']), random.Random(0), only=case.get('mutation'))
        if case.get('mutation'):
            # mutation picks are seeded: try a few seeds to hit the same label
            for s in range(1, 30):
                grid_case(ctx, hs, D.dec(case['grid']), random.Random(s), only=case['mutation'])
        return
    if 'name' in case:
        return
    na, nb = D.dec(case['a']), D.dec(case['b'])
    pair_check(ctx, hs, na, nb, hs.to_hs(na), hs.to_hs(nb), hs.to_hs(na))


def finish(ctx, merged):
    c = merged['counters']
    for key, least in (('pairs compared', 5000), ('kind-aware expectations checked', 1000), ('grid mutations tried', 500),
                       ('singleton copies', 15), ('equal same-kind pairs hashed', 10)):
        if c.get(key, 0) < least:
            ctx.inconclusive.append('%s: %d < %d' % (key, c.get(key, 0), least))
