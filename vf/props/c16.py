"""C16 - ordered metadata maps keep dict content and documented order under every history."""
import random

from vf.models import OrderedMapModel, Rejected

PROP = 'C16'
RULE = ('operation histories over SortableDict/MetadataObject run in lock-step with a reference ordered-map model: '
        'exhaustive DFS to a depth bound from 4 start states over an alphabet of stores, positioned inserts '
        '(index / pos_key x before/after x new/existing key), replace=False, both-position error, del, pop, pop_at, '
        'sort, reverse, append, extend, update, setdefault; plus seeded random histories of length 60. After every '
        'step items(), len(), uniqueness, membership and lookups are compared. distinct = (start state, history); '
        'non-trivial = history contains at least one positioned insert, deletion or reorder')
ASSUME = ['OrderedMapModel in vf/models.py (documented semantics; not judged: pos_key == key itself, after=True with '
          'index on an existing key, negative indices)', 'values are unique per step so a read identifies its write']

STARTS = [[], ['a', 'b'], ['a', 'b', 'c'], ['c', 'a', 'b', 'd']]


def alphabet(keys, rich=True):
    ops = []
    for k in keys:
        ops.append(['set', k])
        ops.append(['del', k])
        ops.append(['append', k, True])
        ops.append(['append', k, False])
        ops.append(['add', k, {'replace': False}])
        for i in ([0, 1, 2, 5] if rich else [0, 1, 4]):
            for after in (False, True):
                ops.append(['add', k, {'index': i, 'after': after}])
        for K in list(keys) + ['zz']:
            if K == k:
                continue          # relative to itself: not judged
            for after in (False, True):
                ops.append(['add', k, {'pos_key': K, 'after': after}])
        ops.append(['add', k, {'index': 0, 'pos_key': keys[0]}])
        ops.append(['add', k, {'index': 1, 'replace': False}])
    for i in (0, 1, 3):
        ops.append(['pop_at', i])
    ops.append(['pop', keys[0]])
    ops.append(['sort'])
    # the arguments of list.sort: a key that ranks several keys equal, descending order (stable: ties keep their order)
    for variant in ('rev', 'len', 'len-rev', 'const-rev', 'last-rev'):
        ops.append(['sort', variant])
    ops.append(['reverse'])
    ops.append(['extend', [keys[0], keys[-1]], True, 'pairs'])
    ops.append(['extend', [keys[-1], keys[1 % len(keys)]], False, 'pairs'])
    ops.append(['extend', [keys[1 % len(keys)], 'e'], True, 'dict'])
    ops.append(['extend', ['e', keys[0], 'e'], True, 'pairs'])          # the same new key twice in one call
    ops.append(['extend', ['f', 'f'], True, 'pairs'])
    ops.append(['extend', ['g', keys[-1], 'g'], False, 'pairs'])
    ops.append(['update', ['h', 'h', keys[0]]])
    ops.append(['update', [keys[-1], keys[0]]])
    ops.append(['setdefault', keys[1 % len(keys)]])
    return ops


SORT_ARGS = {'plain': (None, False), 'rev': (None, True), 'len': (len, False), 'len-rev': (len, True),
             'const-rev': (lambda k: 0, True), 'last-rev': (lambda k: k[-1:], True)}


def op_features(op, before_keys):
    f = ['op=' + op[0]]
    if op[0] == 'add':
        kw = op[2]
        k = op[1]
        f.append('existing-key' if k in before_keys else 'new-key')
        if 'index' in kw and 'pos_key' in kw:
            f.append('both-positions')
        elif 'index' in kw:
            f.append('by-index')
        elif 'pos_key' in kw:
            f.append('by-pos_key')
            K = kw['pos_key']
            if K not in before_keys:
                f.append('unknown-pos_key')
            elif k in before_keys:
                f.append('relocate-forward' if before_keys.index(k) < before_keys.index(K) else 'relocate-backward')
        if kw.get('after'):
            f.append('after')
        if kw.get('replace') is False:
            f.append('replace=False')
    return f


def judged(op, before_keys):
    if op[0] == 'add':
        kw = op[2]
        k = op[1]
        if kw.get('pos_key') == k:
            return False
        if kw.get('after') and kw.get('index') is not None and k in before_keys:
            return False
        if kw.get('index') is not None and kw['index'] < 0:
            return False
    return True


def apply_real(m, op, val, MARKER):
    """Apply op to the real object; return exception class name or None."""
    try:
        t = op[0]
        if t == 'set':
            m[op[1]] = val
        elif t == 'add':
            m.add_item(op[1], val, **op[2])
        elif t == 'del':
            del m[op[1]]
        elif t == 'pop':
            m.pop(op[1])
        elif t == 'pop_at':
            m.pop_at(op[1])
        elif t == 'sort':
            kf, rev = SORT_ARGS[op[1] if len(op) > 1 else 'plain']
            if kf is None and not rev:
                m.sort()
            elif kf is None:
                m.sort(reverse=True)
            else:
                m.sort(key=kf, reverse=rev)
        elif t == 'reverse':
            m.reverse()
        elif t == 'append':
            m.append(op[1], replace=op[2])
        elif t == 'extend':
            pairs = [(k, val * 10 + j) for j, k in enumerate(op[1])]
            m.extend(dict(pairs) if op[3] == 'dict' else pairs, replace=op[2])
        elif t == 'update':
            m.update([(k, val * 10 + j) for j, k in enumerate(op[1])])
        elif t == 'setdefault':
            m.setdefault(op[1], val)
        else:
            raise AssertionError(op)
    except Exception as e:   # noqa - the class is the observation
        return type(e).__name__
    return None


def apply_model(md, op, val, MARKER):
    """Apply op to the model; returns (rejected_class|None, acceptable_alternative_states)."""
    alts = None
    try:
        t = op[0]
        if t == 'set':
            md.add_item(op[1], val)
        elif t == 'add':
            md.add_item(op[1], val, **op[2])
        elif t in ('del', 'pop'):
            md.delete(op[1])
        elif t == 'pop_at':
            md.pop_at(op[1])
        elif t == 'sort':
            md.sort(*SORT_ARGS[op[1] if len(op) > 1 else 'plain'])
        elif t == 'reverse':
            md.reverse()
        elif t == 'append':
            md.add_item(op[1], MARKER, replace=op[2])
        elif t == 'extend':
            before = list(md.items)
            for j, k in enumerate(op[1]):
                try:
                    md.add_item(k, val * 10 + j, replace=op[2])
                except Rejected as r:
                    # multi-item extend: atomicity is not judged - either nothing or the prefix applied
                    alts = [before, list(md.items)]
                    raise r
        elif t == 'update':
            for j, k in enumerate(op[1]):
                md.add_item(k, val * 10 + j)
        elif t == 'setdefault':
            if op[1] not in md.keys():
                md.add_item(op[1], val)
    except Rejected as r:
        return r.cls, alts
    return None, None


class Lockstep(object):
    def __init__(self, ctx, cls_name, MARKER):
        self.ctx = ctx
        self.cls_name = cls_name
        self.MARKER = MARKER
        self.checks = 0

    def observe(self, m):
        items = list(m.items())
        return items

    def step(self, m, md, op, val, hist):
        """Apply op to both; compare. Returns False when the branch must stop (violation)."""
        ctx = self.ctx
        before_keys = md.keys()
        before_items = list(md.items)
        got_exc = apply_real(m, op, val, self.MARKER)
        exp_exc, alts = apply_model(md, op, val, self.MARKER)
        feats = op_features(op, before_keys)
        ctx.cls(op[0], ','.join(feats[1:]), 'raises' if exp_exc else 'ok')
        self.checks += 1

        def viol(symptom, what):
            ctx.violation({'part': 'history', 'kind': self.cls_name, 'symptom': symptom, 'features': feats},
                          what + ' [history %r]' % (hist,), {'cls': self.cls_name, 'history': hist})
        try:
            items = self.observe(m)
            len(m), list(m.keys()), [m[k] for k in m]
        except Exception as e:   # noqa - a map that cannot be read back is the violation
            viol('inconsistent-views', 'after %r the map cannot be read back: %s: %s' % (op, type(e).__name__, str(e)[:80]))
            return False
        if exp_exc and not got_exc:
            viol('accepted-rejected', 'operation %r should be rejected (%s) but was accepted; map now %r' % (op, exp_exc, items))
            return False
        if got_exc and not exp_exc:
            viol('raises:' + got_exc, 'operation %r raised %s on map %r; the documented semantics accept it' % (
                op, got_exc, before_items))
            return False
        if exp_exc:
            ok_states = alts or [before_items]
            if items not in ok_states:
                viol('rejected-but-changed', 'rejected operation %r changed the map from %r to %r' % (op, before_items, items))
                return False
            md.items = list(items)
            ctx.count('rejected operations checked unchanged')
        else:
            if items != md.items:
                same_set = sorted(map(repr, items)) == sorted(map(repr, md.items))
                viol('wrong-order' if same_set else 'content-changed',
                     'after %r on %r: map is %r, reference model says %r' % (op, before_items, items, md.items))
                return False
        keys = [k for k, _ in items]
        if len(m) != len(items) or len(set(keys)) != len(keys) or list(m.keys()) != keys or list(m) != keys:
            viol('inconsistent-views', 'len/keys/iteration disagree: len=%d items=%r keys=%r' % (len(m), items, list(m.keys())))
            return False
        for k, v in items:
            if k not in m or m[k] != v:
                viol('inconsistent-views', 'lookup of %r disagrees with items() %r' % (k, items))
                return False
        for i, (k, v) in enumerate(items):
            if m.at(i) != k or m.value_at(i) != v or m.index(k) != i:
                viol('inconsistent-views', 'at()/value_at()/index() disagree with items() at %d: %r' % (i, items))
                return False
        # every way of taking the map's content elsewhere gives the same items in the same order: the copy protocol
        # (copy.copy / deepcopy / a copy() method if there is one), dict() and list() conversions, a new map built from it
        import copy as _copy
        takes = [('copy.copy', lambda: _copy.copy(m)), ('copy.deepcopy', lambda: _copy.deepcopy(m)),
                 ('type(m)(m.items())', lambda: type(m)(list(m.items()))), ('dict(m)', lambda: dict(m))]
        if hasattr(m, 'copy'):
            takes.append(('m.copy()', lambda: m.copy()))
        for name, fn in takes:
            try:
                c = fn()
                got = list(c.items())
            except Exception as e:   # noqa
                viol('copy-raises:' + type(e).__name__, '%s of map %r raised %s: %s' % (name, items, type(e).__name__, str(e)[:80]))
                return False
            if got != items:
                viol('copy-differs', '%s of map %r has items %r' % (name, items, got))
                return False
            if name != 'dict(m)' and (list(c.keys()) != keys or list(c) != keys or len(c) != len(keys)):
                viol('copy-differs', '%s of map %r iterates as %r' % (name, items, list(c)))
                return False
        ctx.count('copies compared', len(takes))
        if list(m.items()) != items:
            viol('copy-changed-the-original', 'taking copies changed the map from %r to %r' % (items, list(m.items())))
            return False
        ctx.count('states compared')
        return True


def make(cls, keys, MARKER):
    return cls([(k, 'init_' + k) for k in keys])


def clone(cls, m):
    return cls(list(m.items()))


def nontrivial(hist):
    return any(o[0] in ('del', 'pop', 'pop_at', 'sort', 'reverse') or
               (o[0] == 'add' and ('index' in o[2] or 'pos_key' in o[2])) for o in hist)


def dfs(ctx, ls, cls, ops, start, depth, first_ops):
    MARKER = ls.MARKER
    states = set()

    def rec(m, md, hist, d):
        states.add(tuple(md.items))
        if d == depth:
            return
        cand = first_ops if d == 0 else ops
        for op in cand:
            if not judged(op, md.keys()):
                ctx.count('not judged (documented ambiguity)')
                continue
            m2 = clone(cls, m)
            md2 = md.copy()
            h2 = hist + [op]
            ctx.case(start, h2, nontrivial=nontrivial(h2))
            if ls.step(m2, md2, op, len(h2), {'start': start, 'ops': h2}):
                rec(m2, md2, h2, d + 1)
    m = make(cls, start, MARKER)
    md = OrderedMapModel([(k, 'init_' + k) for k in start])
    rec(m, md, [], 0)
    return len(states)


def attach_invariant(ctx):
    """icontract invariant on the real SortableDict class (inherited by MetadataObject):
    iteration yields distinct keys, each resolvable.  Records, never raises."""
    import icontract
    from hszinc.sortabledict import SortableDict
    box = {'n': 0, 'bad': None}

    def keys_unique_and_resolvable(self):
        box['n'] += 1
        try:
            ks = list(self._order)
            if len(set(ks)) != len(ks) or set(ks) != set(self._values.keys()):
                box['bad'] = 'order %r vs values %r' % (ks, sorted(self._values.keys(), key=repr))
        except AttributeError:
            pass     # during __init__ before the fields exist
        return True
    icontract.invariant(keys_unique_and_resolvable)(SortableDict)
    return box


def shards(tier, seed):
    out = [{'part': 'repo-tests'}]
    n = 14
    if tier == 'quick':
        for i in range(n):
            out.append({'part': 'dfs', 'keys': ['a', 'b', 'c', 'd'], 'depth': 2, 'slice': [i, n], 'rich': True,
                        'starts': [0, 1, 2, 3], 'depth3_start': 2})
        out.append({'part': 'random', 'n': 1500, 'len': 60, 'invariant': True})
        out.append({'part': 'random', 'n': 1500, 'len': 60, 'invariant': False, 'sub': 1})
    else:
        for i in range(n):
            out.append({'part': 'dfs', 'keys': ['a', 'b', 'c', 'd'], 'depth': 3, 'slice': [i, n], 'rich': True,
                        'starts': [0, 1, 2, 3], 'depth3_start': None})
        for i in range(n):
            out.append({'part': 'dfs', 'keys': ['a', 'b', 'c'], 'depth': 4, 'slice': [i, n], 'rich': False,
                        'starts': [0, 2], 'depth3_start': None})
        for j in range(8):
            out.append({'part': 'random', 'n': 6000, 'len': 60, 'invariant': j % 2 == 0, 'sub': j})
    return out


def run_shard(spec, ctx):
    from hszinc.metadata import MetadataObject
    from hszinc.sortabledict import SortableDict
    from hszinc.datatypes import MARKER
    if spec['part'] == 'repo-tests':
        from vf import contracts
        contracts.repo_tests_shard(ctx, ['sortabledict'], PROP)
        return
    if spec['part'] == 'dfs':
        ls = Lockstep(ctx, 'MetadataObject', MARKER)
        ops = alphabet(spec['keys'], spec['rich'])
        i, n = spec['slice']
        first = [op for j, op in enumerate(ops) if j % n == i]
        total_states = 0
        for si in spec['starts']:
            start = STARTS[si]
            if any(k not in spec['keys'] for k in start):
                start = [k for k in start if k in spec['keys']]
            d = spec['depth']
            if spec.get('depth3_start') == si:
                d = 3
            total_states += dfs(ctx, ls, MetadataObject, ops, start, d, first)
        ctx.count('distinct model states reached (per shard sum)', total_states)
        ctx.count('alphabet size', 0)
        ctx.sample({'start': STARTS[spec['starts'][-1]], 'first_ops': first[:3], 'depth': spec['depth'],
                    'alphabet': len(ops)})
    else:
        box = attach_invariant(ctx) if spec.get('invariant') else None
        r = random.Random(ctx.seed * 1000003 + 17 + spec.get('sub', 0))
        for hno in range(spec['n']):
            cls = MetadataObject if r.random() < 0.6 else SortableDict
            ls = Lockstep(ctx, cls.__name__, MARKER)
            keys = ['a', 'b', 'c', 'd', 'e'][:r.randint(3, 5)]
            ops = alphabet(keys, True)
            if cls is SortableDict:
                ops = [o for o in ops if o[0] not in ('append', 'extend')]
            start = r.choice(STARTS)
            start = [k for k in start if k in keys]
            m = make(cls, start, MARKER)
            md = OrderedMapModel([(k, 'init_' + k) for k in start])
            hist = []
            for s in range(spec['len']):
                op = r.choice(ops)
                if not judged(op, md.keys()):
                    continue
                hist.append(op)
                if not ls.step(m, md, op, len(hist), {'start': start, 'ops': list(hist)}):
                    break
            ctx.case(start, hist, nontrivial=nontrivial(hist))
            if hno == 0:
                ctx.sample({'cls': cls.__name__, 'start': start, 'ops': hist[:8], 'final': [k for k, _ in md.items]})
        if box is not None:
            ctx.count('icontract invariant evaluations', box['n'])
            if box['bad']:
                ctx.violation({'part': 'history', 'kind': 'SortableDict', 'symptom': 'invariant-broken', 'features': []},
                              'order list is not a duplicate-free permutation of the value keys: ' + box['bad'], {})
            if box['n'] == 0:
                ctx.inconc('icontract invariant was attached but never evaluated')


def replay(case, ctx):
    from hszinc.metadata import MetadataObject
    from hszinc.sortabledict import SortableDict
    from hszinc.datatypes import MARKER
    cls = MetadataObject if case.get('cls', 'MetadataObject') == 'MetadataObject' else SortableDict
    ls = Lockstep(ctx, cls.__name__, MARKER)
    h = case['history']
    start = h['start']
    m = make(cls, start, MARKER)
    md = OrderedMapModel([(k, 'init_' + k) for k in start])
    hist = []
    for op in h['ops']:
        hist.append(op)
        if not ls.step(m, md, op, len(hist), {'start': start, 'ops': list(hist)}):
            break


def finish(ctx, merged):
    c = merged['counters']
    if c.get('states compared', 0) < 10000:
        ctx.inconclusive.append('fewer than 10000 states compared')
    if c.get('rejected operations checked unchanged', 0) == 0:
        ctx.inconclusive.append('no rejected operation observed')
    if c.get('icontract invariant evaluations', 0) == 0:
        ctx.inconclusive.append('icontract invariant never evaluated')
