"""C14 - Grid behaves as a list of row dicts under every sequence of operations."""
import itertools
import random

from vf import gridops as G

PROP = 'C14'
RULE = ('operation histories applied in lock-step to a real Grid and a Python list: every history of length <= depth '
        'over the op alphabet (append, insert, extend, +=, item assignment, del index/slice, pop, remove, reverse, '
        'clear, continue-on-slice; rows with id / without id / non-dict; indices -1,0,1,5), exhaustive, plus seeded '
        'random histories of length 40 over the full row pool. After the history: len, iteration (row identity), '
        'g[i] for every i in [-n-1,n], 9 slices (type, header, rows), membership/index/count, reversed. '
        'distinct = history; non-trivial = history that changes the row list at least once')
ASSUME = ['the list model is Python list itself', 'atomicity of a refused *multi-row* extend/+= is not judged '
          '(either nothing or the accepted prefix)', 'grid[i] = non-dict with i out of range may raise TypeError or IndexError']


def alphabet(rows=(0, 1), nondict=5, idx=(-1, 0, 1, 5), v3row=None, twin=12):
    ops = []
    if twin is not None and rows[1] == 1:
        # a row equal to rows[1] that is another object: a list finds / removes the *first equal* row
        ops += [['append', twin], ['insert', 0, twin], ['set', 0, twin], ['remove', twin]]
    for r in list(rows) + [nondict]:
        ops.append(['append', r])
    for i in idx:
        for r in rows:
            ops.append(['insert', i, r])
            ops.append(['set', i, r])
    ops.append(['insert', 0, nondict])
    ops.append(['set', 0, nondict])
    if v3row is not None:
        # a row with a 3.0-only cell (only used on unversioned / 3.0 grids): the grid upgrades itself, slices must follow
        ops.append(['append', v3row])
        ops.append(['set', 0, v3row])
    ops.append(['set', 5, nondict])
    ops += [['extend', [rows[0], rows[1]]], ['extend', [rows[1]]], ['extend', [rows[1], nondict, rows[0]]], ['extend', []],
            ['iadd', [rows[0]]], ['iadd', [rows[1], rows[1]]],
            # one-shot iterables: a list takes any iterable
            ['extend', [rows[0], rows[1]], 'gen'], ['extend', [rows[1]], 'iter'], ['iadd', [rows[0]], 'map'],
            ['extend', [rows[1], rows[0]], 'tuple'], ['iadd', [rows[1], rows[0]], 'reversed'], ['extend', [rows[0], nondict], 'gen']]
    for i in idx:
        ops.append(['del', i])
    ops += [['delslice', 0, 1, None], ['delslice', 1, None, None], ['delslice', None, None, 2], ['delslice', 0, 0, None],
            ['pop'], ['popi', 0], ['popi', -1], ['popi', 5], ['remove', rows[0]], ['remove', rows[1]],
            ['reverse'], ['clear'], ['slice', 0, 2], ['slice', 1, None], ['slice', None, None]]
    return ops


def changes(hist):
    return any(o[0] not in ('slice',) for o in hist)


def exec_history(hszinc, hist, observe_every=False, version=None, counts=None):
    """Run one history in lock-step. Returns None or (symptom, what, step, state)."""
    st = G.State(hszinc, version)
    l = st.l
    for step, op in enumerate(hist):
        before = list(l)
        # a row with a 3.0-only cell stored into a *derived* grid (slice) whose version is still pre-3.0: the slice was
        # built with the parent's version as an explicit argument, so whether it refuses (C10) or accepts like a list is
        # not judged here - the model follows whatever the grid did.
        uses_v3 = (op[0] in ('append', 'remove') and op[1] == 8) or (op[0] in ('insert', 'set') and op[2] == 8) or \
            (op[0] in ('extend', 'iadd') and 8 in op[1])
        if uses_v3 and st.derived and str(st.g.version)[:1] in ('1', '2'):
            probe = list(st.g)
            got = G.real_apply(st, op)
            if got == 'ValueError':
                now = list(st.g)
                l[:] = [r for r in now]          # prefix-or-nothing: follow the grid
                continue
            exp2, _, l2 = G.model_apply(list(l), op, st.pool)
            if got is None and exp2 is None:
                l = l2
            elif got is not None and exp2 and got in exp2:
                pass                                  # refused the way a list refuses (bad index, ...)
            elif got is not None:
                return ('raises:' + got, 'step %d %r raised %s' % (step, op, got), step, st)
            else:
                return ('accepted-refused', 'step %d %r must be refused (%s)' % (step, op, '/'.join(sorted(exp2))), step, st)
            continue
        exp, alts, l = G.model_apply(l, op, st.pool)
        got = G.real_apply(st, op)
        if counts is not None:
            counts['cls'].add((op[0], 'refused' if exp else 'ok', ','.join(sorted(set(st.derived)))))
        if got and not exp:
            return ('raises:' + got, 'step %d %r raised %s; a list accepts it (rows before: %r)' % (step, op, got, before), step, st)
        if exp and not got:
            return ('accepted-refused', 'step %d %r must be refused (%s) but was accepted' % (
                step, op, '/'.join(sorted(exp))), step, st)
        if exp:
            if got not in exp:
                return ('wrong-exception:' + got, 'step %d %r raised %s, expected %s' % (
                    step, op, got, '/'.join(sorted(exp))), step, st)
            now = list(st.g)
            ok = [s for s in (alts or [before]) if G.rows_identical(now, s)]
            if not ok:
                return ('refused-but-changed', 'refused step %d %r changed the grid rows from %r to %r' % (
                    step, op, before, now), step, st)
            l[:] = ok[-1]
            if counts is not None:
                counts['refused'] += 1
        if observe_every or step == len(hist) - 1:
            probs = G.observe_list(st, l)
            if counts is not None:
                counts['obs'] += 1
            if probs:
                sym, what = probs[0]
                return (sym, 'after step %d %r: %s' % (step, op, what), step, st)
    return None


def run_history(ctx, hszinc, hist, observe_every=False, version=None):
    counts = {'cls': set(), 'refused': 0, 'obs': 0}
    res = exec_history(hszinc, hist, observe_every, version, counts)
    for c in counts['cls']:
        ctx.cls(*c)
    ctx.count('refused operations checked unchanged', counts['refused'])
    ctx.count('list-view observations', counts['obs'])
    if res is None:
        return
    sym = res[0]
    from vf.core import shrink_list

    def still(h):
        r = exec_history(hszinc, h, True, version)
        return r is not None and r[0] == sym
    small = shrink_list(hist[:res[2] + 1], still)
    r2 = exec_history(hszinc, small, True, version) or res
    st = r2[3]
    last = small[r2[2]] if small else hist[res[2]]
    feats = sorted({'op=' + last[0]} | set(st.derived) | G.history_features(st, small))
    ctx.violation({'part': 'history', 'kind': 'Grid', 'symptom': sym, 'features': feats},
                  r2[1] + ' [minimised history %r]' % (small,), {'history': small, 'version': version})


def shards(tier, seed):
    n = 14
    out = []
    depth = 3 if tier == 'quick' else 4
    for i in range(n):
        out.append({'part': 'dfs', 'depth': depth, 'slice': [i, n]})
    out += [{'part': 'dfs-header3', 'slice': [i, 8]} for i in range(8)]
    if tier == 'quick':
        out += [{'part': 'random', 'n': 1500, 'len': 40, 'sub': j} for j in range(2)]
    else:
        out += [{'part': 'random', 'n': 10000, 'len': 40, 'sub': j} for j in range(8)]
    return out


def run_shard(spec, ctx):
    import hszinc
    if spec['part'] == 'dfs-header3':
        # a grid whose header holds the 3.0-only values: every history to depth 2 and the ones to depth 3 that empty the grid
        ops = alphabet(v3row=8)
        emptying = [o for o in ops if o[0] in ('clear', 'pop', 'popi', 'del', 'delslice', 'remove')]
        n = 0
        si, sn = spec.get('slice', [0, 1])
        for d in (1, 2, 3):
            for hist in itertools.product(ops, repeat=d):
                hist = list(hist)
                if ops.index(hist[0]) % sn != si:
                    continue
                if d == 3 and not (hist[1] in emptying or hist[0] in emptying):
                    continue
                ctx.case('header3', hist, nontrivial=changes(hist))
                run_history(ctx, hszinc, hist, version='auto+header3')
                n += 1
        ctx.count('histories on a grid whose header holds the 3.0-only values', n)
        return
    if spec['part'] == 'dfs':
        ops = alphabet(v3row=8)
        i, n = spec['slice']
        first = [op for j, op in enumerate(ops) if j % n == i]
        for d in range(1, spec['depth'] + 1):
            for f in first:
                for rest in itertools.product(ops, repeat=d - 1):
                    hist = [f] + list(rest)
                    ctx.case(hist, nontrivial=changes(hist))
                    run_history(ctx, hszinc, hist)
        ctx.sample({'history': [first[0]] + ops[5:7], 'alphabet': len(ops), 'depth': spec['depth']})
    else:
        r = random.Random(ctx.seed * 1000003 + 31 + spec['sub'])
        base = alphabet()
        wide = alphabet(rows=(0, 1), idx=(-2, -1, 0, 1, 2, 3, 7)) + alphabet(rows=(2, 3), idx=(0, 1)) + \
            alphabet(rows=(4, 6), idx=(0, 2)) + alphabet(rows=(7, 1), idx=(0,))
        for hno in range(spec['n']):
            ops = base if r.random() < 0.3 else wide
            ver = r.choice([None, '2.0', '3.0', 'auto+header3'])
            if ver != '2.0' and r.random() < 0.5:
                ops = ops + [['append', 8], ['set', 0, 8], ['insert', 1, 8], ['extend', [8, 1]]] * 3
            hist = [r.choice(ops) for _ in range(r.randint(1, spec['len']))]
            ctx.case(hist, ver, nontrivial=changes(hist))
            run_history(ctx, hszinc, hist, observe_every=True, version=ver)
            if hno == 0:
                ctx.sample({'random_history': hist[:10], 'version': ver})


def replay(case, ctx):
    import hszinc
    run_history(ctx, hszinc, case['history'], observe_every=True, version=case.get('version'))


def finish(ctx, merged):
    c = merged['counters']
    if c.get('list-view observations', 0) < 10000:
        ctx.inconclusive.append('fewer than 10000 list-view observations')
    if c.get('refused operations checked unchanged', 0) == 0:
        ctx.inconclusive.append('no refused operation was observed')
