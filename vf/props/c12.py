"""C12 - filter literals are data, never code: evaluating a filter has no side effects."""
import ast
import builtins
import os
import random
import sys

PROP = 'C12'
RULE = ('canary payloads (Python expressions / statements with an observable effect, builtin and dunder names, quote / '
        'backslash / newline break-outs) are placed in every literal and identifier position of the filter grammar (str, uri, '
        'ref name, ref display, xstr type, xstr payload, unit, zone name, bin, tag, path segment, dict key, list element), '
        'wrapped in 6 filter shapes and evaluated by the real Grid.filter under three monitors: (1) a sys.addaudithook '
        'recorder armed around the call (open / import / exec / compile / os.* / subprocess / socket / ctypes events; the only '
        'events allowed are the compile+exec of the one generated function); (2) the source captured from the compile event '
        'is parsed with ast and every callee / name must belong to the code generator\'s own vocabulary, never to the filter '
        'text; (3) snapshots of builtins, sys.modules, the filter module\'s globals and the grid, plus canary flags. A text '
        'that is not a filter must raise pyparsing.ParseException. distinct = filter text; non-trivial = all')
ASSUME = ['CPython audit events cover file, process, import, compile/exec and socket effects',
          'library-internal lazy loading (datetime._strptime import, pytz zone files) is triggered in a warm-up before the hook is armed',
          'a text whose literal payload is malformed may be rejected with pyparsing.ParseException or a ValueError-family error',
          'the generator\'s vocabulary is fixed: _get_path, _compare, _consts, _grid, _entity, id, NOT_FOUND (plus names the '
          'filter module itself defines); anything else in call position is text from the filter']

CANARY_FILE = os.path.join(os.path.dirname(os.path.dirname(os.path.dirname(os.path.abspath(__file__)))), '.work', 'c12_canary')

PAYLOADS = [
    'exec', 'eval', 'open', 'print', 'compile', '__import__', 'globals', 'setattr', 'quit', 'exit', 'breakpoint', 'input',
    'os', 'sys', 'builtins', '__builtins__', '__class__', '__globals__', 'id', 'NOT_FOUND', '_get_path', '_grid', '_entity',
    'VF_CANARY',
]
EXPRS = [
    '__import__("builtins").__dict__.__setitem__("VF_CANARY",1)',
    '__import__(\'os\').system(\'true\')',
    'open("%s","w")' % CANARY_FILE,
    'exec("import os")',
    'eval("1+1")',
    'globals().__setitem__("VF_CANARY",1)',
    'setattr(__import__("builtins"),"VF_CANARY",1)',
    '(lambda: 1)()',
    '[x for x in ().__class__.__base__.__subclasses__()]',
    '1 if 1 else 2',
    'a) or __import__("os").system("true") or (a',
    '"+__import__("os").system("true")+"',
    "'+__import__('os').system('true')+'",
    '\\"+exec(\\"1\\")+\\"',
    '\\\\"+exec("1")+"',
    '\nimport os\n',
    '\n  return __import__("os")\n',
    '");exec("1',
    '")\ndef _get_path(*a): return 1\n("',
    '${jndi:x}', '{0.__class__}', '%s%s%s', '\x00', u'\u2028exec(1)',
]
XSTR_TYPES = ['exec', 'eval', 'open', 'print', 'compile', '__import__', 'globals', 'quit', 'exit', 'input', 'breakpoint', 'id',
              'vars', 'dir', 'Foo', 'hex', 'b64', '_get_path', 'NOT_FOUND', 'type', 'repr', 'str', 'list', 'setattr', 'getattr',
              'Quantity', 'Ref', 'XStr', 'help', 'memoryview', 'bytearray', 'iter', 'len']
XSTR_ARGS = ['VF_CANARY=1', 'import os', 'x', CANARY_FILE, '1+1', 'os', '__import__("os").system("true")', '', 'deadbeef', 'AQI=']

ALLOWED_NAMES = {'_get_path', '_compare', '_consts', '_grid', '_entity', 'id', 'NOT_FOUND', 'True', 'False', 'None'}
LITERAL_CTORS = set()      # after the fix no constructor is needed in generated code; before it repr() used these


class Monitor(object):
    """One audit hook per process; records events only while armed."""
    WATCH = ('open', 'import', 'exec', 'compile', 'os.', 'subprocess.', 'socket.', 'ctypes.', 'shutil.', 'glob.', 'pty.',
             'webbrowser.', 'urllib.', 'builtins.input', 'builtins.breakpoint', 'cpython.run_', 'code.__new__',
             'marshal.', 'pickle.', 'sqlite3.', 'tempfile.', 'signal.', 'sys._', 'function.__new__', 'fcntl.', 'mmap.',
             'msvcrt.', 'winreg.', 'syslog.', 'ensurepip.', 'http.', 'ftplib.', 'smtplib.', 'poplib.', 'imaplib.', 'nntplib.',
             'telnetlib.', 'resource.', 'gc.')

    def __init__(self):
        self.armed = False
        self.events = []
        sys.addaudithook(self.hook)

    def hook(self, event, args):
        if not self.armed:
            return
        if event.startswith(self.WATCH):
            try:
                if event == 'compile':
                    src = args[0]
                    if isinstance(src, bytes):
                        src = src.decode('utf-8', 'replace')
                    self.events.append(('compile', src if isinstance(src, str) else None, args[1] if len(args) > 1 else None))
                elif event == 'exec':
                    co = args[0]
                    self.events.append(('exec', getattr(co, 'co_name', None), getattr(co, 'co_filename', None)))
                else:
                    self.events.append((event, repr(args)[:120]))
            except Exception:
                self.events.append((event, '?'))

    def run(self, fn):
        self.events = []
        self.armed = True
        try:
            return fn()
        finally:
            self.armed = False


def registry_state():
    """What the shared pint unit registry knows (pint mode only): names of units, prefixes and suffixes."""
    import hszinc
    ureg = getattr(hszinc, 'ureg', None)
    out = []
    for attr in ('_units', '_prefixes', '_suffixes', '_dimensions'):
        d = getattr(ureg, attr, None)
        if d is not None:
            try:
                out.append((attr, len(d), hash(frozenset(d.keys()))))
            except Exception:   # noqa
                out.append((attr, len(d), 0))
    return tuple(out)


PINT = [False]


def process_state():
    """Interpreter-wide settings a program can see: recursion limit, switch interval, working directory, module search
    path, environment, warning filters, threads, the standard streams and their hooks."""
    import os as _os
    import threading as _th
    import warnings as _w
    return (sys.getrecursionlimit(), sys.getswitchinterval(), _os.getcwd(), tuple(sys.path), hash(frozenset(_os.environ.items())),
            len(_w.filters), _th.active_count(), id(sys.stdin), id(sys.stderr), id(sys.excepthook), id(sys.displayhook),
            sys.gettrace() is None, sys.getprofile() is None, id(_th.excepthook), sys.flags.dev_mode, _os.umask(_os.umask(0o22) or 0) if False else 0)


def library_state():
    """Module-level state of the library itself: for every global of every hszinc module its identity, and for the
    containers among them (tables, memos, registries) their size and key set."""
    out = {}
    for name, mod in list(sys.modules.items()):
        if mod is None or not (name == 'hszinc' or name.startswith('hszinc.')):
            continue
        for k, v in list(vars(mod).items()):
            if k.startswith('__') or k.startswith('_gen_hsfilter_') or k == '_id_function':
                continue
            if isinstance(v, (dict, set, frozenset, list)):
                try:
                    digest = hash(frozenset(v if not isinstance(v, dict) else v.keys())) if len(v) < 5000 else 0
                except TypeError:
                    digest = 0
                out[name + '.' + k] = (id(v), len(v), digest)
            else:
                out[name + '.' + k] = id(v)
    return out


def state_snapshot(gf):
    mods = set(sys.modules.keys())
    b = dict((k, id(v)) for k, v in builtins.__dict__.items())
    g = dict((k, id(v)) for k, v in gf.__dict__.items() if not k.startswith('_gen_hsfilter_') and k != '_id_function')
    return mods, b, g, (registry_state() if PINT[0] else ()), library_state(), process_state()


def check_source(src):
    """AST monitor on the generated source; returns list of foreign names in code position."""
    bad = []
    try:
        tree = ast.parse(src)
    except SyntaxError as e:
        return ['<generated source does not parse: %s>' % e.msg]
    # the generated module must consist of exactly one function definition (comments are fine)
    tops = [n for n in tree.body]
    if len(tops) != 1 or not isinstance(tops[0], ast.FunctionDef) or not tops[0].name.startswith('_gen_hsfilter_'):
        bad.append('construct:module-level-' + ','.join(type(n).__name__ for n in tops if not (
            isinstance(n, ast.FunctionDef) and n.name.startswith('_gen_hsfilter_')))[:60])
    for node in ast.walk(tree):
        if isinstance(node, ast.Call):
            f = node.func
            name = f.id if isinstance(f, ast.Name) else (f.attr if isinstance(f, ast.Attribute) else type(f).__name__)
            if name not in ALLOWED_NAMES:
                bad.append('callee:' + name)
        elif isinstance(node, ast.Name):
            if node.id not in ALLOWED_NAMES and not node.id.startswith('_gen_hsfilter_'):
                bad.append('name:' + node.id)
        elif isinstance(node, ast.Attribute):
            bad.append('attribute:' + node.attr)
        elif isinstance(node, (ast.Import, ast.ImportFrom, ast.Lambda, ast.ListComp, ast.GeneratorExp, ast.Global)):
            bad.append('construct:' + type(node).__name__)
        elif isinstance(node, ast.FunctionDef) and not node.name.startswith('_gen_hsfilter_'):
            bad.append('def:' + node.name)
    return sorted(set(bad))


def esc_str(p):
    return p.replace('\\', '\\\\').replace('"', '\\"').replace('\n', '\\n').replace('\r', '\\r').replace('\t', '\\t').replace('\x00', '\\u0000')


def esc_uri(p):
    return p.replace('\\', '\\\\').replace('`', '\\`').replace('\n', '\\n').replace('\x00', '\\u0000')


def positions(p):
    """(position, filter atom text) for one payload; both escaped and raw variants where the position has quotes."""
    out = [
        ('str', 'a == "%s"' % esc_str(p)), ('str-raw', 'a == "%s"' % p),
        ('uri', 'a == `%s`' % esc_uri(p)), ('uri-raw', 'a == `%s`' % p),
        ('ref-name', 'a == @%s' % p), ('ref-display', 'a == @x "%s"' % esc_str(p)), ('ref-display-raw', 'a == @x "%s"' % p),
        ('xstr-type', 'a == %s("x")' % p), ('xstr-payload', 'a == Type("%s")' % esc_str(p)), ('xstr-payload-raw', 'a == Type("%s")' % p),
        ('unit', 'a == 5%s' % p), ('zone', 'a == 2020-01-01T00:00:00Z %s' % p), ('zone-nospace', 'a == 2020-01-01T00:00:00Z%s' % p),
        ('bin', 'a == Bin(%s)' % p), ('tag', p), ('tag-cmp', '%s == 5' % p), ('path-segment', 'a->%s' % p), ('path-head', '%s->a' % p), ('path-third', 'a->b->%s' % p), ('path-mid', 'a->%s->b' % p),
        ('dict-key', 'a == {%s:1}' % p), ('dict-value', 'a == {k:"%s"}' % esc_str(p)), ('list-elem', 'a == [%s]' % p),
        ('list-str', 'a == ["%s"]' % esc_str(p)), ('number-suffix', 'a == 1%s' % p), ('coord', 'a == C(%s,1)' % p),
        ('not-path', 'not %s' % p),
    ]
    return out


SHAPES = ['%s', 'not b or %s', 'b and %s', 'b or %s', '(%s)', 'not b and ((%s) or c)']


def make_grid(hszinc):
    g = hszinc.Grid(version='3.0', columns=[(c, []) for c in ('id', 'a', 'b', 'c')])
    rows = [{'id': hszinc.Ref('x'), 'a': 'text', 'b': hszinc.MARKER}, {'a': 5.0, 'c': hszinc.MARKER}, {'a': hszinc.Uri('u')},
            {'a': hszinc.XStr('Type', 'x'), 'b': hszinc.MARKER}, {'a': hszinc.Ref('x')}, {'b': hszinc.MARKER},
            {'a': hszinc.Quantity(5, 'kg' if PINT[0] else 'exec')}, {'a': [1.0]}, {'a': {'k': 'v'}}, {'a': hszinc.Bin('text/plain')},
            # a reference target whose id is a plain string, and a row pointing at it
            {'id': 's1', 'a': 'site', 'b': hszinc.MARKER}, {'a': hszinc.Ref('s1'), 'c': hszinc.MARKER}, {'id': 7, 'a': hszinc.Ref('7')},
            # one id on two rows: whichever of them a lookup answers with, it answers the same after a filter ran
            {'id': hszinc.Ref('d'), 'a': 'first', 'b': hszinc.MARKER}, {'id': hszinc.Ref('d'), 'a': 'second', 'c': hszinc.MARKER}]
    for r in rows:
        g.append(r)
    return g


def lookup_keys(hszinc):
    R = hszinc.Ref
    return ['x', '@x', R('x'), 's1', '@s1', R('s1'), R('s1', 'dis'), 7, '7', '@7', R('7'), 'never', '@never', R('never'), 'text', '', '@', 'd', '@d', R('d')]


def grid_observations(hszinc, hs, gr):
    """Everything a caller can see of the grid: content and row identities, version, and what every id spelling
    looks up (row position, default, or the exception)."""
    rows = list(gr)
    seen = []
    for key in lookup_keys(hszinc):
        for how in ('item', 'get', 'in'):
            try:
                if how == 'item':
                    v = gr[key]
                elif how == 'get':
                    v = gr.get(key, 'DEFAULT')
                else:
                    v = key in gr
                if isinstance(v, dict):
                    hit = [i for i, r in enumerate(rows) if r is v]
                    v = 'row %r' % (hit or 'not-in-grid',)
                seen.append((repr(key), how, repr(v)))
            except Exception as e:   # noqa
                seen.append((repr(key), how, type(e).__name__))
    return (repr(hs.from_grid(gr)), repr([id(r) for r in gr]), str(gr.version), tuple(seen))


def warm_up(hszinc, g):
    """Library-internal lazy loading is not an effect of the filter text: trigger it before arming the hook
    (datetime's lazy `_strptime` import, pytz opening a zone file on first use, hszinc's zone map)."""
    import datetime
    import pytz
    from hszinc import zoneinfo
    datetime.datetime.strptime('2020-01-01', '%Y-%m-%d')
    for full in zoneinfo.get_tz_map().values():
        pytz.timezone(full)
    for text in ('a and b', 'a == 2020-01-01', 'a == 12:00:00', 'a == 2020-01-01T00:00:00Z UTC', 'a == 2020-01-01T00:00:00+10:00 Brisbane',
                 'a == C(1,2)', 'a == hex("00")', 'a == b64("AQI=")', 'a == 5kg', 'a->b'):
        try:
            g.filter(text)
        except Exception:
            pass


def shards(tier, seed):
    out = []
    n = 12
    for i in range(n):
        out.append({'part': 'payloads', 'slice': [i, n]})
    out.append({'part': 'xstr'})
    out.append({'part': 'deep'})
    # the same monitors with pint quantities switched on (hszinc.use_pint()): unit text then reaches a shared registry
    out.append({'part': 'pint', 'slice': [0, 2]})
    out.append({'part': 'pint', 'slice': [1, 2]})
    if tier != 'quick':
        for j in range(8):
            out.append({'part': 'random', 'n': 100000 // 8, 'sub': j})
    else:
        out.append({'part': 'random', 'n': 1500, 'sub': 0})
    return out


def evaluate(ctx, mon, hszinc, gf, pp, g, text, pos, payload, grid_snap):
    """Run one filter under the monitors."""
    ctx.case(text)
    ctx.count('filters evaluated')
    ctx.cls('position', pos)
    before = state_snapshot(gf)
    if hasattr(builtins, 'VF_CANARY'):
        delattr(builtins, 'VF_CANARY')
    gf.__dict__.pop('VF_CANARY', None)
    outcome = None

    def call():
        return g.filter(text)
    try:
        res = mon.run(call)
        outcome = 'evaluated'
    except pp.ParseException:
        outcome = 'parse-error'
    except RecursionError:
        outcome = 'other-exception:RecursionError'
    except Exception as e:   # noqa
        outcome = 'other-exception:' + type(e).__name__
    except BaseException as e:   # noqa - SystemExit / KeyboardInterrupt raised by code taken from the filter text
        outcome = 'other-exception:' + type(e).__name__
        escaped_base = type(e).__name__
    else:
        escaped_base = None
    if not outcome.startswith('other-exception') or outcome.split(':')[1] not in ('SystemExit', 'KeyboardInterrupt', 'GeneratorExit'):
        escaped_base = None
    events = list(mon.events)
    ctx.count('outcome ' + outcome.split(':')[0])
    case = {'text': text, 'pos': pos}

    def viol(symptom, what, feats=()):
        ctx.violation({'part': 'filter', 'position': pos.replace('-raw', ''), 'kind': 'literal', 'symptom': symptom,
                       'features': sorted(set(feats))}, what + ' | filter %r' % (text,), case)
    if escaped_base:
        viol('effect:' + escaped_base, 'evaluating the filter raised %s (code from the filter text ran)' % escaped_base)
    # (1) audit events
    compiles = [e for e in events if e[0] == 'compile']
    for e in events:
        ctx.count('audit event ' + e[0].split('.')[0])
        if e[0] == 'compile':
            if not (isinstance(e[1], str) and 'def _gen_hsfilter_' in e[1] and e[2] in ('<string>', None)) or len(compiles) > 1:
                viol('effect:compile', 'compile() of something that is not the generated filter function: %r' % ((e[1] or '')[:120],))
        elif e[0] == 'exec':
            if e[1] not in ('<module>',) or len([x for x in events if x[0] == 'exec']) > 1:
                viol('effect:exec', 'exec of %r' % (e,))
        else:
            viol('effect:' + e[0], 'audit event %r during filter evaluation' % (e,))
    # (2) generated source
    for e in compiles:
        if isinstance(e[1], str) and 'def _gen_hsfilter_' in e[1]:
            ctx.count('generated sources AST-checked')
            bad = check_source(e[1])
            if bad:
                viol('foreign-in-code:' + bad[0].split(':')[0], 'generated source holds %r in code position: %r' % (bad, e[1][:300]),
                     ['callee-from-filter-text' if any(b.split(':', 1)[1] in text for b in bad) else 'generator-vocabulary'])
    # (3) state
    after = state_snapshot(gf)
    if hasattr(builtins, 'VF_CANARY') or 'VF_CANARY' in gf.__dict__:
        viol('canary-set', 'the canary flag was set by evaluating the filter')
    if os.path.exists(CANARY_FILE):
        os.unlink(CANARY_FILE)
        viol('canary-file', 'the canary file was created by evaluating the filter')
    if after[0] - before[0]:
        viol('state:modules-imported', 'modules imported: %r' % (sorted(after[0] - before[0])[:5],))
    if after[1] != before[1]:
        viol('state:builtins-changed', 'builtins changed: %r' % (sorted(set(after[1].items()) ^ set(before[1].items()))[:4],))
    if after[2] != before[2]:
        diff = sorted(set(k for k, _ in (set(after[2].items()) ^ set(before[2].items()))))
        viol('state:filter-module-globals-changed', 'filter module globals changed: %r' % (diff[:5],))
    if after[5] != before[5]:
        names = ('recursion limit', 'switch interval', 'working directory', 'sys.path', 'environment', 'warning filters', 'threads', 'stdin',
                 'stderr', 'excepthook', 'displayhook', 'trace function', 'profile function', 'threading.excepthook', 'dev mode', '-')
        ch = [(nm, a, b) for nm, a, b in zip(names, before[5], after[5]) if a != b]
        viol('state:interpreter-setting-changed', 'interpreter-wide settings changed: %r' % (ch[:3],))
        # put back what can be put back, so that one filter does not taint the verdicts of the following ones
        try:
            sys.setrecursionlimit(before[5][0])
            sys.setswitchinterval(before[5][1])
        except Exception:   # noqa
            pass
    if after[4] != before[4]:
        diff = sorted(k for k in set(after[4]) | set(before[4]) if after[4].get(k) != before[4].get(k))
        diff = [k for k in diff if not k.startswith('hszinc.grid_filter._gen_hsfilter_')]
        if diff:
            viol('state:library-globals-changed', 'module-level state of the library changed: %r' % (
                [(k, before[4].get(k), after[4].get(k)) for k in diff[:4]],))
    if after[3] != before[3]:
        viol('state:unit-registry-changed', 'the shared unit registry (hszinc.ureg) changed: %r -> %r' % (
            [x[:2] for x in before[3]], [x[:2] for x in after[3]]), ['pint-mode'])
    now = grid_snap(g)
    if now != evaluate.snap0:
        parts = [nm for nm, a, b in zip(('content', 'row identities', 'version', 'id lookups'), evaluate.snap0, now) if a != b]
        detail = ''
        if 'id lookups' in parts:
            detail = '; lookups that changed: %r' % ([(a, b) for a, b in zip(evaluate.snap0[3], now[3]) if a != b][:4],)
        viol('state:grid-mutated', 'the grid changed (%s)%s' % (', '.join(parts), detail))
        evaluate.snap0 = now
    if outcome.startswith('other-exception'):
        ctx.cls('other-exception', outcome.split(':')[1], pos)
        # not a parse error and not an evaluation: only a *non-filter* text must give ParseException; an evaluation-time
        # error of a well-formed filter is C11's business.  A text that is not a filter is recognised by parse_filter.
        try:
            hszinc.parse_filter(text)
        except Exception as e2:   # noqa
            pintish = PINT[0] and (type(e2).__module__.split('.')[0] in ('pint', 'tokenize') or any(
                c.__name__ == 'PintError' for c in type(e2).__mro__))
            if isinstance(e2, RecursionError) and pos == 'deep-nesting':
                # the recursive-descent parser runs out of stack at about 60 levels: a resource limit, whatever the text
                ctx.count('deeply nested filter given up with RecursionError (resource limit, not judged)')
            elif isinstance(e2, pp.ParseException):
                viol('non-filter-not-parse-error:' + outcome.split(':')[1], 'not a filter, yet %s was raised instead of ParseException' % outcome)
            elif pintish:
                # pint mode: the unit text of a quantity literal is handed to pint, which refuses what it does not know
                ctx.count('quantity literal refused by pint (pint mode, not judged)')
            elif isinstance(e2, ValueError):
                # a literal whose payload is malformed (hex("x"), C(os,1), 5_): rejected while parsing with a
                # ValueError-family error - counted as "rejected with a parse error"
                ctx.count('rejected with ValueError from a literal parse action')
            else:
                viol('parse_filter-raises:' + type(e2).__name__, 'parse_filter raised %s for this text' % type(e2).__name__)
    return outcome


def run_shard(spec, ctx):
    import hszinc
    import pyparsing as pp
    from hszinc import grid_filter as gf
    from vf import hs
    if spec['part'] == 'pint':
        hszinc.use_pint(True)
        PINT[0] = True
        if type(hszinc.Quantity(1, 'kg')).__name__ != 'PintQuantity':
            ctx.inconc('pint mode could not be switched on')
            return
        # pint's own lazy work (definition cache, application registry, parser tables) before the hook is armed
        for txt in ('5kg', '1.5m/s', '2kW', '3zorkmid', '1%', '2ft**2', '1$', '1e'):
            try:
                hszinc.ureg(txt)
            except Exception:   # noqa
                pass
            try:
                hszinc.Quantity(1, txt[1:])
            except Exception:   # noqa
                pass
    g = make_grid(hszinc)

    def grid_snap(gr):
        return grid_observations(hszinc, hs, gr)
    warm_up(hszinc, make_grid(hszinc))     # on a grid of its own: the judged grid is untouched until the first judged filter
    mon = Monitor()
    # prove the hook is alive
    mon.run(lambda: (compile('1', '<vf-selftest>', 'eval'), open(os.devnull).close()))
    if not any(e[0] == 'compile' for e in mon.events) or not any(e[0] == 'open' for e in mon.events):
        ctx.inconc('audit hook self-test saw no compile/open event')
    evaluate.snap0 = grid_snap(g)
    if spec['part'] == 'deep':
        # deeply nested filters, well-formed and malformed at the innermost position or after it (the parser may give up
        # on them, with a parse error or RecursionError; what it may not do is leave the interpreter changed)
        k = 0
        for depth in (5, 30, 61, 62, 80, 120, 250, 600):
            for inner in ('a', 'a == 5', 'a ==', '__import__("os")', 'a == "\\q"', 'not', 'a and', ')', '(', 'a == exec("VF_CANARY=1")', ''):
                for tail in ('', ')', ' x', ' and'):
                    text = '(' * depth + inner + ')' * depth + tail
                    evaluate(ctx, mon, hszinc, gf, pp, g, text, 'deep-nesting', None, grid_snap)
                    k += 1
                    text = '(' * depth + inner + ')' * (depth - 1)
                    evaluate(ctx, mon, hszinc, gf, pp, g, text, 'deep-nesting', None, grid_snap)
                    text = 'not ' * depth + inner
                    evaluate(ctx, mon, hszinc, gf, pp, g, text, 'deep-nesting', None, grid_snap)
        ctx.count('deeply nested filters', k * 3)
        ctx.sample({'deep_filter': '(' * 61 + 'a ==' + ')' * 61})
        return
    if spec['part'] == 'pint':
        i, n = spec['slice']
        k = 0
        units = ['zorkmid', 'exit', 'kW', 'kg', 'quit', 'os', '_', 'a_b', 'm/s', 'kW/exec', 'open*2', 'lambda', 'import', '%', '$', 'ft**2', 'e', 'E5',
                 'print', '__import__', 'VF_CANARY', 'x' * 40] + [p for p in PAYLOADS + EXPRS if len(p) < 40]
        for u in units:
            for atom in ('a == 5%s' % u, 'a < 1.5%s' % u, 'a->b >= 1%s' % u, 'a == [1%s]' % u, 'a == {k:2%s}' % u, 'a != -3%s' % u):
                for shape in SHAPES[:4]:
                    k += 1
                    if k % n != i:
                        continue
                    evaluate(ctx, mon, hszinc, gf, pp, g, shape % atom, 'unit', u, grid_snap)
                    ctx.count('filters evaluated in pint mode')
        ctx.sample({'pint_mode_filter': 'a == 5zorkmid', 'registry': [x[:2] for x in registry_state()]})
    elif spec['part'] == 'payloads':
        i, n = spec['slice']
        allp = PAYLOADS + EXPRS
        k = 0
        for p in allp:
            for pos, atom in positions(p):
                for shape in SHAPES:
                    k += 1
                    if k % n != i:
                        continue
                    evaluate(ctx, mon, hszinc, gf, pp, g, shape % atom, pos, p, grid_snap)
        ctx.sample({'payload': EXPRS[0], 'positions': [x for x, _ in positions('P')], 'shapes': SHAPES})
    elif spec['part'] == 'xstr':
        for t in XSTR_TYPES:
            for a in XSTR_ARGS:
                for shape in SHAPES[:3]:
                    evaluate(ctx, mon, hszinc, gf, pp, g, shape % ('a == %s("%s")' % (t, esc_str(a))), 'xstr-type', t, grid_snap)
                    evaluate(ctx, mon, hszinc, gf, pp, g, shape % ('a != %s("%s")' % (t, esc_str(a))), 'xstr-type', t, grid_snap)
        ctx.sample({'xstr_literal_filter': 'a == exec("VF_CANARY=1")'})
    else:
        r = random.Random(ctx.seed * 1000003 + 1200 + spec['sub'])
        toks = ['a', 'b', 'c', 'and', 'or', 'not', '(', ')', '==', '!=', '<', '>=', '->', '"', '`', '@', '[', ']', '{', '}', ':', ',',
                '5', '1.5kg', 'true', 'Bin(', 'C(', 'T', 'N', 'NA', '2020-01-01', '12:00:00', 'Z', 'UTC', ' ', '\\', '$', '_', '.',
                'exec', '__import__', 'open', 'os', 'system', 'print', 'VF_CANARY', '=', ';', '\n', '#', "'", '+', '*', 'lambda', 'import']
        for j in range(spec['n']):
            m = r.random()
            if m < 0.5:
                p = r.choice(PAYLOADS + EXPRS + XSTR_TYPES)
                pos, atom = r.choice(positions(p))
                text = r.choice(SHAPES) % atom
                if r.random() < 0.3:
                    cut = r.randrange(len(text) + 1)
                    text = text[:cut] + r.choice(toks) + text[cut:]
            else:
                pos = 'random-tokens'
                text = ''.join(r.choice(toks) + r.choice(['', ' ']) for _ in range(r.randint(1, 12)))
            evaluate(ctx, mon, hszinc, gf, pp, g, text, pos, None, grid_snap)
        ctx.sample({'random_filter': text})


evaluate.snap0 = None


def replay(case, ctx):
    import hszinc
    import pyparsing as pp
    from hszinc import grid_filter as gf
    from vf import hs
    g = make_grid(hszinc)

    def grid_snap(gr):
        return grid_observations(hszinc, hs, gr)
    warm_up(hszinc, make_grid(hszinc))     # on a grid of its own: the judged grid is untouched until the first judged filter
    mon = Monitor()
    evaluate.snap0 = grid_snap(g)
    evaluate(ctx, mon, hszinc, gf, pp, g, case['text'], case.get('pos', 'replay'), None, grid_snap)


def finish(ctx, merged):
    c = merged['counters']
    if c.get('filters evaluated', 0) < 3000:
        ctx.inconclusive.append('filters evaluated: %d' % c.get('filters evaluated', 0))
    if c.get('filters evaluated in pint mode', 0) < 200:
        ctx.inconclusive.append('pint mode: %d filters evaluated' % c.get('filters evaluated in pint mode', 0))
    if c.get('audit event compile', 0) == 0:
        ctx.inconclusive.append('the audit hook never saw a compile event for an evaluated filter (AST monitor not observed)')
    if c.get('outcome evaluated', 0) < 200 or c.get('outcome parse-error', 0) < 200:
        ctx.inconclusive.append('outcome histogram too thin: %r' % {k: v for k, v in c.items() if k.startswith('outcome')})
