"""C10 - version gating: a pre-3.0 grid never carries 3.0-only data, in memory or on the wire."""
import itertools
import json
import random
import re
import warnings

from vf import domain as D
from vf.props.c18 import ref_cmp

PROP = 'C10'
RULE = ('(1) mutation histories on a real Grid with declared version in {none,2.0,3.0,2.5,3.0.0,1.0,4.0}: constructor '
        'args, metadata stores, column-metadata stores, append/insert/extend/+=/item assignment with values of each '
        '3.0-only kind (NA, list, dict, nested grid, XStr) and two 2.0 kinds; after every step a recursive walker looks '
        'for 3.0-only values under a pre-3.0 label, refusals must be ValueError and leave the grid unchanged, an '
        'unversioned grid must report 3.0, and both writers are run on the result; (2) the decision matrix version x '
        'kind x decider {Grid, ZINC writer, JSON writer, ZINC reader, JSON reader} x position is observed and compared '
        'with "refuse iff declared version < 3.0". distinct = (version, history) or matrix cell; non-trivial = involves a '
        '3.0-only kind')
ASSUME = ['reference version order of C18', '"pre-3.0" means declared version < 3.0 numerically (so 1.0 and 2.5 refuse, '
          '3.0.0 and 4.0 accept)', 'rows are plain dicts: writing into a stored row dict bypasses the Grid, only the '
          'writers are judged for that']

VERSIONS = [None, '2.0', '3.0', '2.5', '3.0.0', '1.0', '4.0']
K3 = ['na', 'list', 'dict', 'grid', 'xstr']
K2 = ['str', 'num']


def ver_class(v):
    if v is None:
        return 'unversioned'
    if v in ('2.0', '3.0'):
        return 'official-' + v
    if ref_cmp(v, '2.0') < 0:
        return 'nonofficial-below2'
    return 'nonofficial-between' if ref_cmp(v, '3.0') < 0 else 'nonofficial-post3'


def make_value(hszinc, k):
    if k == 'na':
        return hszinc.NA
    if k == 'list':
        return [1.0, 'x']
    if k == 'dict':
        return {'k': 1.0}
    if k == 'grid':
        g = hszinc.Grid(version='3.0', columns=[('inner', [])])
        g.append({'inner': 1.0})
        return g
    if k == 'xstr':
        return hszinc.XStr('Type', 'payload')
    if k == 'str':
        return 'plain'
    if k == 'num':
        return 1.5
    if k == 'list-of-list':
        return [[1.0]]
    raise AssertionError(k)


def kind3(hszinc, v):
    """Own classifier: which 3.0-only kind is value v (None if it is a 2.0 kind)?"""
    if v is hszinc.NA:
        return 'na'
    if isinstance(v, hszinc.XStr):
        return 'xstr'
    if isinstance(v, hszinc.Grid):
        return 'grid'
    if isinstance(v, (list, tuple)):
        return 'list'
    if isinstance(v, dict) or (hasattr(v, 'items') and not isinstance(v, str)):
        return 'dict'
    return None


def grid_contains3(hszinc, g):
    """Recursive-free walker over every value position of a grid: [(position, kind3)]."""
    where = []
    for k, v in g.metadata.items():
        if kind3(hszinc, v):
            where.append(('grid-meta', kind3(hszinc, v)))
    for c, m in g.column.items():
        for k, v in (m.items() if m is not None else ()):
            if kind3(hszinc, v):
                where.append(('col-meta', kind3(hszinc, v)))
    for row in g:
        for k, v in row.items():
            if kind3(hszinc, v):
                where.append(('cell', kind3(hszinc, v)))
    return where


def snapshot(hszinc, g):
    from vf import hs
    return (str(g.version), repr(hs.from_grid(g)))


OPS = ['meta_set', 'meta_append', 'meta_extend', 'meta_update', 'col_set', 'col_append', 'col_plain', 'append', 'insert',
       'extend', 'iadd', 'setitem', 'row_mutate',
       # the same key again: overwrite in place / relocate an existing key (the store paths differ inside the maps)
       'meta_set_same', 'col_set_same', 'meta_relocate_same', 'col_append_same',
       # a row may carry a key that is not (yet) a column: the value is in the grid all the same
       'append_extra', 'setitem_extra',
       # the rows arrive inside another Grid object (dest.extend(src) / dest += src): they are rows like any others
       'extend_grid', 'iadd_grid']
RANDOM_ONLY_OPS = ['insert_extra', 'extend_extra']
# declares every undeclared row key as a column (carries no value of its own)
NOVALUE_OPS = ['declare_extras']
# derived grids: the history continues on a slice / filter result, which must keep covering its content
DERIVE = ['take_slice', 'take_filter']
CTOR_OPS = ['ctor_meta', 'ctor_col', 'ctor_coldict']
BYPASS = ('col_plain', 'row_mutate')


def apply_op(hszinc, g, op, k, step):
    """Returns (exception name|None, new grid or same)."""
    v = make_value(hszinc, k)
    name = 't%d' % step
    try:
        if op == 'meta_set':
            g.metadata[name] = v
        elif op == 'meta_append':
            g.metadata.append(name, v)
        elif op == 'meta_extend':
            g.metadata.extend([(name, v)])
        elif op == 'meta_update':
            g.metadata.update({name: v})
        elif op == 'meta_set_same':
            g.metadata['same'] = v
        elif op == 'col_set_same':
            g.column['a']['same'] = v
        elif op == 'meta_relocate_same':
            g.metadata.add_item('same', v, index=0)
        elif op == 'col_append_same':
            g.column['a'].append('same', v)
        elif op == 'col_set':
            g.column['a'][name] = v
        elif op == 'col_append':
            g.column['a'].append(name, v)
        elif op == 'col_plain':
            g.column['c%d' % step] = {name: v}
        elif op == 'append':
            g.append({'a': v})
        elif op == 'insert':
            g.insert(0, {'a': v})
        elif op == 'extend':
            g.extend([{'a': v}])
        elif op == 'iadd':
            g += [{'a': v}]
        elif op == 'setitem':
            if len(g) == 0:
                g.append({'a': 'seed'})
            g[0] = {'a': v}
        elif op == 'row_mutate':
            if len(g) == 0:
                g.append({'a': 'seed'})
            g[0]['a'] = v
        elif op == 'append_extra':
            g.append({'a': 'plain', 'x%d' % step: v})
        elif op == 'insert_extra':
            g.insert(0, {'x%d' % step: v})
        elif op == 'extend_extra':
            g.extend([{'a': 2.0, 'x%d' % step: v}])
        elif op == 'setitem_extra':
            if len(g) == 0:
                g.append({'a': 'seed'})
            g[0] = {'a': 'plain', 'x%d' % step: v}
        elif op in ('extend_grid', 'iadd_grid'):
            src = hszinc.Grid(version='3.0', columns=[('a', [])])
            src.append({'a': 'plain'})
            src.append({'a': v})
            del src[0]                       # single row, so that a refusal leaves the destination unchanged
            if op == 'extend_grid':
                g.extend(src)
            else:
                g += src
        elif op == 'declare_extras':
            for row in g:
                for key in row:
                    if key not in g.column:
                        g.column[key] = {}
        else:
            raise AssertionError(op)
    except Exception as e:   # noqa
        return type(e).__name__
    return None


def build(hszinc, ver, ctor):
    """ctor: None | (op, kind). Returns (grid|None, exception name|None)."""
    try:
        if ctor is None:
            g = hszinc.Grid(version=ver, columns=[('a', []), ('b', [])])
        else:
            op, k = ctor
            v = make_value(hszinc, k)
            if op == 'ctor_meta':
                g = hszinc.Grid(version=ver, metadata={'cm': v}, columns=[('a', []), ('b', [])])
            elif op == 'ctor_col':
                g = hszinc.Grid(version=ver, columns=[('a', [('cc', v)]), ('b', [])])
            else:
                g = hszinc.Grid(version=ver, columns={'a': {'cc': v}, 'b': {}})
    except Exception as e:   # noqa
        return None, type(e).__name__
    return g, None


def judge_history(ctx, hszinc, ver, ctor, hist):
    """hist: list of (op, kind). Runs lock-step with the gating rule."""
    from hszinc import MODE_ZINC, MODE_JSON
    pre3 = ver is not None and ref_cmp(ver, '3.0') < 0
    case = {'version': ver, 'ctor': ctor, 'history': hist}
    vc = ver_class(ver)

    def viol(symptom, kind, feats, what):
        ctx.violation({'part': 'history', 'kind': kind, 'symptom': symptom, 'features': sorted(set(feats) | {vc})},
                      what + ' [version %r ctor %r history %r]' % (ver, ctor, hist), case)
    g, exc = build(hszinc, ver, ctor)
    bypassed = False
    stored3 = False
    derived = False     # after a slice / filter the grid carries its parent's version: refusing (explicit) or upgrading
    #                     (still automatic) are both acceptable for a 3.0-only store, carrying it under a pre-3.0 label is not
    if ctor is not None:
        k = ctor[1]
        if k in K3 and pre3:
            ctx.count('refusals expected')
            if exc is None:
                viol('accepted-refused', k, ['op=' + ctor[0]], 'constructor stored a %s in a grid declared %s' % (k, ver))
                return
            if exc != 'ValueError':
                viol('refusal-not-ValueError:' + exc, k, ['op=' + ctor[0]], 'constructor refused %s with %s' % (k, exc))
            return
        if exc is not None:
            viol('raises:' + exc, k, ['op=' + ctor[0]], 'constructor raised %s for a %s under version %r' % (exc, k, ver))
            return
        stored3 = k in K3
    for step, (op, k) in enumerate(hist):
        if op in DERIVE:
            try:
                g = g[0:] if op == 'take_slice' else g.filter('a or not a')
            except Exception as e:   # noqa
                if bypassed and type(e).__name__ == 'ValueError':
                    # the derived grid's constructor re-validates column metadata: it refuses what was smuggled in
                    ctx.count('derived grid refused smuggled 3.0 data (ValueError)')
                    return
                viol('derive-raises:' + type(e).__name__, '-', ['op=' + op], 'deriving a grid raised %r' % (e,))
                return
            derived = True
            where = grid_contains3(hszinc, g)
            ctx.count('derived grids checked')
            if where and not bypassed and ref_cmp(str(g.version), '3.0') < 0:
                viol('label-pre3-in-memory', ','.join(sorted({kk for _, kk in where})), ['op=' + op],
                     'the derived grid (%s) holds 3.0-only values at %r but reports version %s' % (op, sorted(set(where)), g.version))
                return
            continue
        if op in NOVALUE_OPS:
            k = 'str'
        if op in ('setitem', 'row_mutate', 'setitem_extra') and len(g) == 0:
            g.append({'a': 'seed'})       # harness seeding, not part of the judged operation
        before = snapshot(hszinc, g)
        exc = apply_op(hszinc, g, op, k, step)
        ctx.cls('store', vc, op, k, 'raise' if exc else 'ok')
        is3 = k in K3
        if op in BYPASS:
            # not mediated by the Grid: nothing to demand of the in-memory label here
            if exc:
                viol('raises:' + exc, k, ['op=' + op], 'bypass store raised %s' % exc)
                return
            bypassed = bypassed or is3
            continue
        if is3 and derived and ref_cmp(before[0], '3.0') < 0:
            if exc == 'ValueError':
                if snapshot(hszinc, g) != before:
                    viol('refused-but-changed', k, ['op=' + op, 'derived'], 'refused step %d %s changed the derived grid' % (step, op))
                    return
                continue
            if exc is not None:
                viol('refusal-not-ValueError:' + exc, k, ['op=' + op, 'derived'], 'step %d %s refused %s with %s' % (step, op, k, exc))
                return
            stored3 = True
            if ref_cmp(str(g.version), '3.0') < 0:
                viol('label-pre3-in-memory', k, ['op=' + op, 'derived'], 'derived grid accepted a %s but still reports %s' % (k, g.version))
                return
            continue
        if is3 and pre3:
            ctx.count('refusals expected')
            if exc is None:
                viol('accepted-refused', k, ['op=' + op], 'step %d %s stored a %s in a grid declared %s' % (step, op, k, ver))
                return
            if exc != 'ValueError':
                viol('refusal-not-ValueError:' + exc, k, ['op=' + op], 'step %d %s refused %s with %s' % (step, op, k, exc))
                return
            after = snapshot(hszinc, g)
            if after != before:
                viol('refused-but-changed', k, ['op=' + op], 'refused step %d %s changed the grid: %s -> %s' % (
                    step, op, before, after))
                return
            ctx.count('refusals observed unchanged')
            continue
        if exc is not None:
            viol('raises:' + exc, k, ['op=' + op], 'step %d %s of a %s raised %s under version %r' % (step, op, k, exc, ver))
            return
        stored3 = stored3 or is3
        # in-memory label: the walker is the monitor
        where = grid_contains3(hszinc, g)
        if is3 and not where:
            viol('value-lost', k, ['op=' + op], 'step %d %s accepted a %s but the walker cannot find it in the grid' % (step, op, k))
            return
        if where and not bypassed:
            lab = str(g.version)
            ctx.count('in-memory label checks')
            if ref_cmp(lab, '3.0') < 0:
                viol('label-pre3-in-memory', ','.join(sorted({kk for _, kk in where})), ['op=' + op], 'after step %d %s the grid holds 3.0-only values at %r but reports version %s' % (
                    step, op, sorted(set(where)), lab))
                return
        if not stored3 and not bypassed and ver is None and str(g.version) != '2.0':
            viol('spurious-upgrade', k, ['op=' + op], 'unversioned grid reports %s after storing only 2.0 kinds' % g.version)
            return
    where = grid_contains3(hszinc, g)
    has3 = bool(where)
    lab = str(g.version)
    label_pre3 = ref_cmp(lab, '3.0') < 0
    kinds_in = sorted({kk for _, kk in where})
    for mode, mname in ((MODE_ZINC, 'zinc'), (MODE_JSON, 'json')):
        try:
            text = hszinc.dump(g, mode=mode)
            exc = None
        except Exception as e:   # noqa
            text, exc = None, type(e).__name__
        ctx.count('writer runs')
        ctx.cls('writer', mname, vc, 'has3' if has3 else 'plain', 'raise' if exc else 'ok')
        if has3 and label_pre3:
            if exc is None:
                for k in kinds_in:
                    ctx.violation({'part': 'history', 'format': mname, 'kind': k, 'symptom': 'writer-emitted-under-pre3',
                                   'features': sorted({vc, 'via=' + ('bypass' if bypassed else 'store')})},
                                  '%s writer emitted a grid labelled %s that carries %s: %r' % (mname, lab, kinds_in, text[:200]),
                                  case)
            elif exc != 'ValueError':
                viol('writer-refusal-not-ValueError:' + exc, ','.join(kinds_in), ['format=' + mname],
                     '%s writer refused with %s' % (mname, exc))
        else:
            if exc is not None:
                viol('writer-raises:' + exc, ','.join(kinds_in) or 'plain', ['format=' + mname],
                     '%s writer raised %s for a grid labelled %s' % (mname, exc, lab))
            else:
                # the emitted label must be the in-memory label
                if mname == 'zinc':
                    m = re.match(r'ver:"([^"]*)"', text)
                    out_label = m.group(1) if m else None
                else:
                    out_label = json.loads(text)['meta'].get('ver')
                if out_label != lab:
                    viol('label-mismatch', '-', ['format=' + mname], 'emitted label %r, grid.version %r' % (out_label, lab))


# ---------------------------------------------------------------------------
# decision matrix
# ---------------------------------------------------------------------------

ZINC_TEXT = {'na': 'NA', 'list': '[1,"x"]', 'dict': '{k:1}', 'grid': '<<ver:"3.0"\ninner\n1\n>>', 'xstr': 'Type("payload")',
             'str': '"plain"', 'num': '1.5'}
JSON_VAL = {'na': 'z:', 'list': ['n:1', 's:x'], 'dict': {'k': 'n:1'},
            'grid': {'meta': {'ver': '3.0'}, 'cols': [{'name': 'inner'}], 'rows': [{'inner': 'n:1'}]},
            'xstr': 'x:Type:payload', 'str': 's:plain', 'num': 'n:1.5'}
POSITIONS = ['cell', 'grid-meta', 'col-meta']
OVERWRITE_OPS = {'grid-meta': 'meta_set_same', 'col-meta': 'col_set_same'}


def zinc_doc(ver, k, pos):
    t = ZINC_TEXT[k]
    if pos == 'cell':
        return 'ver:"%s"\na,b\n%s,1\n' % (ver, t)
    if pos == 'grid-meta':
        return 'ver:"%s" mv:%s\na\n1\n' % (ver, t)
    return 'ver:"%s"\na cv:%s,b\n1,2\n' % (ver, t)


def json_doc(ver, k, pos):
    v = JSON_VAL[k]
    doc = {'meta': {'ver': ver}, 'cols': [{'name': 'a'}, {'name': 'b'}], 'rows': [{'a': 'n:1', 'b': 'n:2'}]}
    if pos == 'cell':
        doc['rows'][0]['a'] = v
    elif pos == 'grid-meta':
        doc['meta']['mv'] = v
    else:
        doc['cols'][0]['cv'] = v
    return doc


def nested_label_mismatch(ctx, hszinc):
    """A nested grid carries its own version label: 3.0-only data inside an inner grid labelled pre-3.0 must be refused
    by both readers even though the outer grid is 3.0."""
    from hszinc import MODE_ZINC, MODE_JSON
    for inner in ('2.0', '1.0'):
        for k in K3:
            for pos in ('cell', 'grid-meta', 'col-meta'):
                if pos == 'cell':
                    z = 'ver:"3.0"\nouter\n<<ver:"%s"\na,b\n%s,1\n>>\n' % (inner, ZINC_TEXT[k])
                elif pos == 'grid-meta':
                    z = 'ver:"3.0"\nouter\n<<ver:"%s" mv:%s\na\n1\n>>\n' % (inner, ZINC_TEXT[k])
                else:
                    z = 'ver:"3.0"\nouter\n<<ver:"%s"\na cv:%s,b\n1,2\n>>\n' % (inner, ZINC_TEXT[k])
                j = {'meta': {'ver': '3.0'}, 'cols': [{'name': 'outer'}], 'rows': [{'outer': json_doc(inner, k, pos)}]}
                for name, fn in (('zinc-reader', lambda: hszinc.parse(z, mode=MODE_ZINC)),
                                 ('zinc-scalar-reader', lambda: hszinc.parse_scalar(z.split('\n', 2)[2].rstrip('\n'), mode=MODE_ZINC, version='3.0')),
                                 ('json-reader', lambda: hszinc.parse(j, mode=MODE_JSON)),
                                 ('json-scalar-reader', lambda: hszinc.parse_scalar(json_doc(inner, k, pos), mode=MODE_JSON, version='3.0'))):
                    ctx.case('nested-label', inner, k, pos, name)
                    ctx.count('nested label-mismatch documents')
                    try:
                        res = fn()
                    except Exception:
                        continue
                    g = res[0]['outer'] if name in ('zinc-reader', 'json-reader') else res
                    lab = str(getattr(g, 'version', '?'))
                    if isinstance(g, hszinc.Grid) and grid_contains3(hszinc, g) and ref_cmp(lab, '3.0') < 0:
                        ctx.violation({'part': 'matrix', 'format': name, 'kind': k, 'symptom': 'accepted-under-pre3',
                                       'features': ['nested-grid-own-label', 'pos=' + pos, ver_class(inner)]},
                                      '%s returned a nested grid labelled %s that holds a %s' % (name, lab, k),
                                      {'version': inner, 'kind': k, 'pos': 'nested-' + pos})


def matrix(ctx, hszinc):
    from hszinc import MODE_ZINC, MODE_JSON
    nested_label_mismatch(ctx, hszinc)
    cells = {}
    for ver in VERSIONS[1:]:
        refuse = ref_cmp(ver, '3.0') < 0
        vc = ver_class(ver)
        for k in K3 + K2:
            is3 = k in K3
            exp = 'refuse' if (is3 and refuse) else 'accept'
            for pos in POSITIONS:
                dec = {}
                # Grid store
                g = hszinc.Grid(version=ver, columns=[('a', []), ('b', [])])
                op = {'cell': 'append', 'grid-meta': 'meta_set', 'col-meta': 'col_set'}[pos]
                exc = apply_op(hszinc, g, op, k, 0)
                dec['grid'] = ('refuse', exc) if exc else ('accept', None)
                if pos in OVERWRITE_OPS:
                    # same decision when the key already exists (in-place replacement)
                    g2 = hszinc.Grid(version=ver, columns=[('a', []), ('b', [])])
                    apply_op(hszinc, g2, OVERWRITE_OPS[pos], 'str', 0)
                    exc2 = apply_op(hszinc, g2, OVERWRITE_OPS[pos], k, 1)
                    dec['grid-overwrite'] = ('refuse', exc2) if exc2 else ('accept', None)
                # writers: grid built through a bypass so that the value is really in there
                g = hszinc.Grid(version=ver, columns=[('a', []), ('b', [])])
                if pos == 'cell':
                    g.append({'a': 'seed'})
                    g[0]['a'] = make_value(hszinc, k)
                elif pos == 'grid-meta':
                    g.metadata._values['mv'] = make_value(hszinc, k)   # direct store: only to feed the writer
                    g.metadata._order.append('mv')
                else:
                    g.column['a'] = {'cv': make_value(hszinc, k)}
                for mode, name in ((MODE_ZINC, 'zinc-writer'), (MODE_JSON, 'json-writer')):
                    try:
                        hszinc.dump(g, mode=mode)
                        dec[name] = ('accept', None)
                    except Exception as e:   # noqa
                        dec[name] = ('refuse', type(e).__name__)
                # scalar writers
                for mode, name in ((MODE_ZINC, 'zinc-scalar-writer'), (MODE_JSON, 'json-scalar-writer')):
                    if pos != 'cell':
                        continue
                    try:
                        hszinc.dump_scalar(make_value(hszinc, k), mode=mode, version=hszinc.Version(ver))
                        dec[name] = ('accept', None)
                    except Exception as e:   # noqa
                        dec[name] = ('refuse', type(e).__name__)
                # readers
                try:
                    pg = hszinc.parse(zinc_doc(ver, k, pos), mode=MODE_ZINC)
                    dec['zinc-reader'] = ('accept', None) if (not is3 or grid_contains3(hszinc, pg)) else ('dropped', None)
                    if is3 and ref_cmp(str(pg.version), '3.0') < 0 and grid_contains3(hszinc, pg):
                        dec['zinc-reader'] = ('accept-pre3', str(pg.version))
                except Exception as e:   # noqa
                    dec['zinc-reader'] = ('refuse', type(e).__name__)
                for form in ('dict', 'str'):
                    try:
                        doc = json_doc(ver, k, pos)
                        pg = hszinc.parse(json.dumps(doc) if form == 'str' else doc, mode=MODE_JSON)
                        r = ('accept', None) if (not is3 or grid_contains3(hszinc, pg)) else ('dropped', None)
                    except Exception as e:   # noqa
                        r = ('refuse', type(e).__name__)
                    dec['json-reader'] = r
                cells[(ver, k, pos)] = dec
                for decider, (d, info) in sorted(dec.items()):
                    ctx.case('matrix', ver, k, pos, decider, nontrivial=is3)
                    ctx.cls('matrix', vc, k, decider, d)
                    ctx.count('matrix cells observed')
                    feats = [vc, 'pos=' + pos]
                    if d.startswith('accept') and exp == 'refuse':
                        ctx.violation({'part': 'matrix', 'format': decider, 'kind': k, 'symptom': 'accepted-under-pre3', 'features': feats},
                                      '%s accepts a %s (%s) under declared version %s; other deciders: %r' % (decider, k, pos, ver, dec),
                                      {'version': ver, 'kind': k, 'pos': pos})
                    elif d == 'refuse' and exp == 'accept':
                        ctx.violation({'part': 'matrix', 'format': decider, 'kind': k, 'symptom': 'refused-under-3plus:' + str(info), 'features': feats},
                                      '%s refuses a %s (%s) under declared version %s with %s' % (decider, k, pos, ver, info),
                                      {'version': ver, 'kind': k, 'pos': pos})
                    elif d == 'dropped':
                        ctx.violation({'part': 'matrix', 'format': decider, 'kind': k, 'symptom': 'value-dropped', 'features': feats},
                                      '%s returned a grid without the %s' % (decider, k), {'version': ver, 'kind': k, 'pos': pos})
                    elif d == 'refuse' and exp == 'refuse' and decider in ('grid', 'grid-overwrite', 'zinc-writer', 'json-writer',
                                                                          'zinc-scalar-writer', 'json-scalar-writer') \
                            and info != 'ValueError':
                        ctx.violation({'part': 'matrix', 'format': decider, 'kind': k, 'symptom': 'refusal-not-ValueError:' + str(info), 'features': feats},
                                      '%s refuses a %s under %s with %s, not ValueError' % (decider, k, ver, info),
                                      {'version': ver, 'kind': k, 'pos': pos})
                # agreement (independent of the expectation): same decision everywhere
                ds = {d.split('-')[0] for d, _ in dec.values() if d != 'dropped'}
                if len(ds) > 1:
                    ctx.count('disagreeing matrix cells')
    ctx.sample({'matrix_cell': ['2.0', 'na', 'cell'], 'decisions': {k: list(v) for k, v in cells[('2.0', 'na', 'cell')].items()}})
    ctx.sample({'matrix_cell': ['2.5', 'list', 'cell'], 'decisions': {k: list(v) for k, v in cells[('2.5', 'list', 'cell')].items()}})
    return cells


def shards(tier, seed):
    out = [{'part': 'matrix'}]
    for v in VERSIONS:
        for cs in range(2):
            out.append({'part': 'hist', 'version': v, 'depth': 2, 'kinds': K3 + K2, 'cslice': [cs, 2]})
    if tier == 'thorough':
        for v in VERSIONS:
            for cs in range(2):
                out.append({'part': 'hist', 'version': v, 'depth': 3, 'kinds': ['na', 'xstr', 'grid', 'str'], 'cslice': [cs, 2]})
    out.append({'part': 'random', 'n': 600 if tier == 'quick' else 6000, 'invariant': True})
    return out


def attach_invariant(hszinc):
    """icontract invariant on the real Grid class: after every public method, a grid that holds a
    3.0-only value (found by the walker) does not report a pre-3.0 version.  Records, never raises."""
    import icontract
    box = {'n': 0, 'bad': None}

    def label_covers_content(self):
        box['n'] += 1
        try:
            if grid_contains3(hszinc, self) and ref_cmp(str(self.version), '3.0') < 0:
                box['bad'] = 'grid labelled %s holds 3.0-only values at %r' % (self.version, grid_contains3(hszinc, self))
        except AttributeError:
            pass       # inside __init__
        return True
    icontract.invariant(label_covers_content)(hszinc.Grid)
    return box


def run_shard(spec, ctx):
    warnings.simplefilter('ignore')
    import hszinc
    if spec['part'] == 'matrix':
        matrix(ctx, hszinc)
        return
    if spec['part'] == 'hist':
        ver = spec['version']
        kinds = spec['kinds']
        steps = [(op, k) for op in OPS for k in kinds] + [(op, 'str') for op in DERIVE + NOVALUE_OPS]
        ctors = [None] + [(op, k) for op in CTOR_OPS for k in kinds]
        n = 0
        cs, cn = spec.get('cslice', [0, 1])
        ctors = [c for i, c in enumerate(ctors) if i % cn == cs]
        for ctor in ctors:
            for d in range(0 if ctor else 1, spec['depth'] + 1):
                for hist in itertools.product(steps, repeat=d):
                    hist = [list(x) for x in hist]
                    if d == spec['depth'] and ctor is not None and d >= 3:
                        continue
                    ctx.case(ver, ctor, hist, nontrivial=any(k in K3 for _, k in hist) or bool(ctor and ctor[1] in K3))
                    judge_history(ctx, hszinc, ver, list(ctor) if ctor else None, hist)
                    n += 1
        ctx.sample({'version': ver, 'ctor': list(ctors[-1]), 'history': [list(steps[0]), list(steps[-1])], 'histories': n})
    else:
        box = attach_invariant(hszinc)
        r = random.Random(ctx.seed * 1000003 + 10)
        ops = [o for o in OPS if o not in BYPASS] + DERIVE + RANDOM_ONLY_OPS + NOVALUE_OPS
        for i in range(spec['n']):
            ver = r.choice(VERSIONS)
            ctor = None if r.random() < 0.6 else [r.choice(CTOR_OPS), r.choice(K3 + K2)]
            hist = [[r.choice(ops), r.choice(K3 + K2 + K2)] for _ in range(r.randint(1, 8))]
            ctx.case(ver, ctor, hist, nontrivial=any(k in K3 for _, k in hist))
            judge_history(ctx, hszinc, ver, ctor, hist)
            if box['bad']:
                ctx.violation({'part': 'history', 'kind': 'Grid', 'symptom': 'invariant:label-pre3-in-memory',
                               'features': [ver_class(ver)]}, box['bad'], {'version': ver, 'ctor': ctor, 'history': hist})
                box['bad'] = None
        ctx.count('icontract invariant evaluations', box['n'])
        if box['n'] == 0:
            ctx.inconc('Grid invariant never evaluated')
        ctx.sample({'random_history': hist, 'version': ver})


def replay(case, ctx):
    warnings.simplefilter('ignore')
    import hszinc
    if 'pos' in case:
        matrix(ctx, hszinc)
        return
    judge_history(ctx, hszinc, case['version'], case.get('ctor'), case['history'])


def finish(ctx, merged):
    c = merged['counters']
    for key, least in (('matrix cells observed', 500), ('refusals observed unchanged', 100), ('writer runs', 1000),
                       ('in-memory label checks', 100), ('icontract invariant evaluations', 100)):
        if c.get(key, 0) < least:
            ctx.inconclusive.append('%s: %d < %d' % (key, c.get(key, 0), least))
