"""C06 - the JSON writer emits well-formed Haystack JSON that denotes the grid (judged by an independent reader)."""
import json
import sys
from collections import Counter

from vf import domain as D
from vf import hs, refjson, rt, rtdriver
from vf.refzinc import RefReject

PROP = 'C06'
FMT = 'json'
RULE = ('output sanitizer on hszinc.dump(MODE_JSON) / dump_scalar: the text must be valid JSON of the shape '
        '{meta:{ver,...}, cols:[{name,...}], rows:[{...}]} (array of such for a list of grids); vf.refjson (strict, '
        'independent) must accept every encoded value (prefix of its kind + the kind\'s lexical form, Remove spelled for the '
        'version) and recover the dumped grid (six-decimal rule). Workloads as C02. distinct = the case')
ASSUME = ['vf/refjson.py is a faithful transcription of the Haystack JSON chapter (DESIGN.md Appendix A.2)',
          'json module of the standard library']
_me = sys.modules[__name__]


def in_domain(n):
    return True


def _conform(text, exps, array):
    try:
        obj = json.loads(text)
    except Exception as e:
        return 'nonconformant:not-json', str(e)[:200]
    if array != isinstance(obj, list):
        return 'nonconformant:document-shape', 'expected %s' % ('array' if array else 'object')
    try:
        got = refjson.read(obj, strict=True)
    except RefReject as e:
        return 'nonconformant:' + e.code, e.detail
    if len(got) != len(exps):
        return 'shape-changed', '%d grids vs %d' % (len(got), len(exps))
    for e, g in zip(exps, got):
        d = D.grid_diff(e, g, True)
        if d:
            return 'denotes-other:' + d[1], '%s: %s' % (d[0], d[2])
    return None


def judge_grid(n):
    import hszinc
    art = {}
    try:
        g = hs.to_grid(n)
        text = hszinc.dump(g, mode=hs.JSON)
    except Exception as e:
        return 'dump-raises:' + type(e).__name__, str(e)[:200], art
    art['text'] = text
    r = _conform(text, [rt.expected_of(n, g)], False)
    return (r[0], r[1], art) if r else (None, '', art)


def judge_scalar(n, ver):
    import hszinc
    art = {}
    try:
        out = hszinc.dump_scalar(hs.to_hs(n), mode=hs.JSON, version=hszinc.Version(ver))
    except Exception as e:
        return 'dump-raises:' + type(e).__name__, str(e)[:200], art
    art['text'] = out
    try:
        json.dumps(out)
        got = refjson.Reader(strict=True).val(out, ver != '2.0')
    except RefReject as e:
        return 'nonconformant:' + e.code, e.detail, art
    except Exception as e:
        return 'nonconformant:not-json', str(e)[:100], art
    d = D.diff(n, got, True)
    if d:
        return 'denotes-other:' + d[1], '%s: %s' % (d[0], d[2]), art
    return None, '', art


def judge_multi(ns, single):
    import hszinc
    art = {}
    if single:
        return None, '', art
    gs = [hs.to_grid(n) for n in ns]
    try:
        text = hszinc.dump(gs, mode=hs.JSON)
    except Exception as e:
        return 'dump-raises:' + type(e).__name__, str(e)[:200], art
    art['text'] = text
    r = _conform(text, [rt.expected_of(n, g) for n, g in zip(ns, gs)], True)
    return (r[0], r[1], art) if r else (None, '', art)


def shards(tier, seed):
    return rtdriver.shards(tier, seed, quick_grids=6000, thorough_grids=300000)


GEN_OPTIONS = {'zoneless': 0.2}      # fixed-offset tzinfo values: a zone with that offset at that instant, or ValueError
NOT_JUDGED = ('dump-raises:ValueError',)


def run_shard(spec, ctx):
    rtdriver.run_shard(_me, spec, ctx)


def replay(case, ctx):
    rtdriver.replay(_me, case, ctx)


def finish(ctx, merged):
    c = merged['counters']
    for key, least in (('scalar round trips', 500), ('position round trips', 2000), ('grid round trips', 4000)):
        if c.get(key, 0) < least:
            ctx.inconclusive.append('%s: %d < %d' % (key, c.get(key, 0), least))
