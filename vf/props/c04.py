"""C04 - the ZINC writer emits spec-conformant text that denotes the grid (judged by an independent reader)."""
import sys

from vf import domain as D
from vf import hs, refzinc, rtdriver

PROP = 'C04'
FMT = 'zinc'
RULE = ('output sanitizer on hszinc.dump(MODE_ZINC) / dump_scalar: every emitted text is read by vf.refzinc (strict, '
        'hand-written from the ZINC grammar, shares no code with hszinc) and the recovered grid is compared with the grid '
        'that was dumped. Workloads as C01: boundary catalogue x version as scalars, each value alone in every position of a '
        'sentinel grid, seeded random grids, multi-grid documents. distinct = the case (value, position, version / grid)')
ASSUME = ['vf/refzinc.py is a faithful transcription of the ZINC 2.0/3.0 grammar (DESIGN.md Appendix A.1)',
          'URIs with C0 control characters are not judged (whether \\n style escapes are legal in a URI is arguable)',
          'the multi-grid document form (grids separated by blank lines) is hszinc\'s documented extension']
_me = sys.modules[__name__]
TOKENS = None


def in_domain(n):
    if n[0] == 'uri' and any(ord(c) < 0x20 for c in n[1]):
        return False
    return True


def _conform(text, exp_grids):
    from collections import Counter
    c = Counter()
    try:
        got = refzinc.read(text, c)
    except refzinc.RefReject as e:
        return 'nonconformant:' + e.code, 'independent reader rejects at offset %d: %s' % (e.pos, e.detail)
    if len(got) != len(exp_grids):
        return 'shape-changed', 'independent reader finds %d grids, %d were dumped' % (len(got), len(exp_grids))
    for e, g in zip(exp_grids, got):
        d = D.grid_diff(e, g, False)
        if d:
            return 'denotes-other:' + d[1], '%s: %s' % (d[0], d[2])
    return None


def judge_grid(n):
    import hszinc
    from vf import rt
    art = {}
    try:
        g = hs.to_grid(n)
        text = hszinc.dump(g, mode=hs.ZINC)
    except Exception as e:
        return 'dump-raises:' + type(e).__name__, str(e)[:200], art
    art['text'] = text
    exp = rt.expected_of(n, g)
    if not text.endswith('\n'):
        return 'nonconformant:no-final-newline', '', art
    r = _conform(text, [exp])
    if r:
        return r[0], r[1], art
    return None, '', art


def judge_scalar(n, ver):
    import hszinc
    art = {}
    try:
        text = hszinc.dump_scalar(hs.to_hs(n), mode=hs.ZINC, version=hszinc.Version(ver))
    except Exception as e:
        return 'dump-raises:' + type(e).__name__, str(e)[:200], art
    art['text'] = text
    try:
        got = refzinc.read_scalar(text, ver != '2.0')
    except refzinc.RefReject as e:
        return 'nonconformant:' + e.code, 'independent reader rejects at offset %d: %s' % (e.pos, e.detail), art
    d = D.diff(n, got, False)
    if d:
        return 'denotes-other:' + d[1], '%s: %s' % (d[0], d[2]), art
    return None, '', art


def judge_multi(ns, single):
    import hszinc
    from vf import rt
    art = {}
    if single:
        return None, '', art
    gs = [hs.to_grid(n) for n in ns]
    try:
        text = hszinc.dump(gs, mode=hs.ZINC)
    except Exception as e:
        return 'dump-raises:' + type(e).__name__, str(e)[:200], art
    art['text'] = text
    r = _conform(text, [rt.expected_of(n, g) for n, g in zip(ns, gs)])
    return (r[0], r[1], art) if r else (None, '', art)


def shards(tier, seed):
    return rtdriver.shards(tier, seed)


GEN_OPTIONS = {'zoneless': 0.2}      # fixed-offset tzinfo values: a zone with that offset at that instant, or ValueError
NOT_JUDGED = ('dump-raises:ValueError',)


def run_shard(spec, ctx):
    rtdriver.run_shard(_me, spec, ctx)


def replay(case, ctx):
    rtdriver.replay(_me, case, ctx)


def finish(ctx, merged):
    c = merged['counters']
    for key, least in (('scalar round trips', 500), ('position round trips', 2000), ('grid round trips', 1000)):
        if c.get(key, 0) < least:
            ctx.inconclusive.append('%s: %d < %d' % (key, c.get(key, 0), least))
