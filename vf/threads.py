"""Generic "independent jobs in several threads" monitor, on top of the deterministic line scheduler (vf/sched.py).

Each job works on objects of its own, so the only thing two jobs can share is state the library keeps at module or
class level (caches, memo tables, "last value" globals).  The jobs are first run one after the other, then under every
schedule with at most `bound` preemptions inside the library's own Python code (breadth first, capped), and finally
once more one after the other: every answer must be the single-threaded one.

Code objects are discovered dynamically (PY_START recorder while the jobs run once): every function defined under
<repo>/hszinc that the jobs reach, except those that run underneath pyparsing frames - with packrat enabled pyparsing
calls its parse actions under a global lock, a thread parked there would block everybody, and the program itself
cannot switch threads at such a point in any way that matters to other parsing threads.
"""
import os
import sys

from vf import core
from vf import sched

_PKG = os.path.join(os.path.realpath(core.REPO), 'hszinc') + os.sep


def discover(jobs):
    mon = sys.monitoring
    seen, under = {}, set()

    def on_start(code, offset):
        fn = code.co_filename
        if not os.path.realpath(fn).startswith(_PKG):
            return
        seen[id(code)] = code
        f = sys._getframe(1)
        depth = 0
        while f is not None and depth < 80:
            if 'pyparsing' in f.f_code.co_filename:
                under.add(id(code))
                break
            f = f.f_back
            depth += 1
    try:
        mon.use_tool_id(2, 'vf-discover')
    except ValueError:
        pass
    mon.register_callback(2, mon.events.PY_START, on_start)
    mon.set_events(2, mon.events.PY_START)
    try:
        for j in jobs:
            try:
                j()
            except Exception:   # noqa - the answer (also an exception) is compared later
                pass
    finally:
        mon.set_events(2, 0)
        mon.free_tool_id(2)
    codes = [c for i, c in seen.items() if i not in under and c.co_name not in ('<module>',)]
    codes.sort(key=lambda c: (c.co_filename, c.co_firstlineno))
    return codes, ['%s:%s' % (os.path.basename(c.co_filename)[:-3], c.co_name) for c in codes]


def _answer(fn):
    try:
        return ('ok', fn())
    except Exception as e:   # noqa - class is the observation
        return ('raise', type(e).__name__, str(e)[:200])


def explore(ctx, label, make_jobs, bound=1, cap=600, sig=None, case=None):
    """make_jobs() -> list of callables (fresh objects each time), one per thread; answers must be comparable with ==.
    Returns the statistics; reports violations through ctx."""
    sig = dict(sig or {})
    jobs = make_jobs()
    k = len(jobs)
    codes, names = discover(make_jobs())
    if len(codes) < 2:
        ctx.inconc('%s: fewer than 2 library functions could be instrumented for the thread schedules' % label)
        return None
    expected = [_answer(j) for j in make_jobs()]
    sched.install(codes)

    def report(symptom, what, ov):
        s = dict(sig)
        s.setdefault('part', 'schedule')
        s['symptom'] = symptom
        s['features'] = sorted(set(s.get('features', [])) | {'threads=%d' % k, 'jobs=' + label})
        c = dict(case or {})
        c.update({'thread_jobs': label, 'overrides': [list(x) for x in ov]})
        ctx.violation(s, what + ' [jobs %s, schedule %r]' % (label, list(ov)), c)

    def check(results, s, ov):
        ctx.case('schedule', label, tuple(ov))
        ctx.count('thread schedules executed')
        if s.failed:
            ctx.count('schedules with a scheduling problem (not judged): ' + s.failed.split(' at ')[0])
            return
        for t, res in enumerate(results):
            if res is None:
                continue
            got = ('ok', res[1]) if res[0] == 'ok' else res
            if got != expected[t]:
                report('differs-from-single-threaded' if got[0] == 'ok' else 'raises:' + got[1],
                       'thread %d got %r, alone it gets %r' % (t, _short(got), _short(expected[t])), ov)
                return
        # what the threads left behind: the last job first (a "last value" memo is still warm for it), then all in order
        fresh = make_jobs()
        for t in list(range(k - 1, -1, -1)) + list(range(k)):
            now = _answer(fresh[t])
            if now != expected[t]:
                report('differs-afterwards', 'after the threads finished, job %d alone gives %r (before: %r)' % (
                    t, _short(now), _short(expected[t])), ov)
                return

    stats = sched.explore(codes, make_jobs, check, bound, max_schedules=cap, max_seconds=1200 if ctx.tier != 'quick' else None)
    ctx.count('distinct interleavings (trace fingerprints)', len(stats['fingerprints']))
    ctx.count('single-preemption schedules executed', stats['by_preemptions'].get(1, 0))
    ctx.note('thread schedules %s: %d threads, bound %d: %d schedules (by preemptions %r, %d left unexplored by the cap), %d distinct '
             'interleavings, up to %d decision points; %d functions instrumented (%s ...)' % (
                 label, k, bound, stats['schedules'], stats['by_preemptions'], stats['left_unexplored'], len(stats['fingerprints']),
                 stats['max_decisions'], len(names), ','.join(names[:8])))
    ctx.cls('thread-schedules', label, 'threads=%d' % k, 'bound=%d' % bound)
    return stats


def replay(ctx, label, make_jobs, overrides, sig=None, case=None):
    jobs = make_jobs()
    codes, names = discover(make_jobs())
    expected = [_answer(j) for j in make_jobs()]
    sched.install(codes)
    results, s = sched.run_schedule(codes, make_jobs(), [tuple(x) for x in overrides])
    for t, res in enumerate(results):
        got = ('ok', res[1]) if res and res[0] == 'ok' else res
        if got != expected[t]:
            sg = dict(sig or {})
            sg.setdefault('part', 'schedule')
            sg['symptom'] = 'differs-from-single-threaded'
            sg['features'] = ['threads=%d' % len(jobs), 'jobs=' + label]
            ctx.violation(sg, 'thread %d got %r, alone it gets %r' % (t, _short(got), _short(expected[t])), case or {})
            return


def _short(x):
    s = repr(x)
    return s if len(s) < 300 else s[:300] + '...'
