"""Bridge between N-form (vf.domain) and hszinc's API objects."""
import datetime

import pytz

import hszinc
from hszinc.datatypes import Qty

from vf import domain as D
from vf import tzref

ZINC = hszinc.MODE_ZINC
JSON = hszinc.MODE_JSON


class NotInDomain(Exception):
    pass


ALIAS = False         # when True, equal containers / equal rows of one grid are one and the same Python object
_alias_memo = {}
WRAP_NUM = False      # when True, numbers without unit are built as hszinc.Quantity(v) instead of bare int / float
SUBCLASS = False      # when True, leaf values are built as instances of *subclasses* of the value types


class _Sub(object):
    cache = {}

    @classmethod
    def of(cls, base):
        if base not in cls.cache:
            cls.cache[base] = type('My' + base.__name__, (base,), {})
        return cls.cache[base]


def _sub(v):
    """An instance of a trivial subclass with the same content (a value type's subclass is still that kind of value)."""
    t = type(v)
    try:
        if t in (bool, type(None)) or v is hszinc.MARKER or v is hszinc.NA or v is hszinc.REMOVE:
            return v
        S = _Sub.of(t)
        if t is datetime.datetime:
            return S(v.year, v.month, v.day, v.hour, v.minute, v.second, v.microsecond, tzinfo=v.tzinfo, fold=v.fold)
        if t is datetime.date:
            return S(v.year, v.month, v.day)
        if t is datetime.time:
            return S(v.hour, v.minute, v.second, v.microsecond)
        if t in (int, float, str) or issubclass(t, str):
            return S(v)
        if isinstance(v, hszinc.Ref):
            return S(v.name, v.value, v.has_value)
        if isinstance(v, hszinc.Coordinate):
            return S(v.latitude, v.longitude)
        if isinstance(v, Qty):
            return S(v.value, v.unit)
        if isinstance(v, hszinc.XStr):
            return S(v.encoding, v.data_to_string())
    except Exception:
        return v
    return v


def to_hs(n):
    v = _to_hs(n)
    if SUBCLASS and n[0] not in ('list', 'dict', 'grid'):
        return _sub(v)
    return v


def _to_hs(n):
    k = n[0]
    if k == 'null':
        return None
    if k == 'marker':
        return hszinc.MARKER
    if k == 'remove':
        return hszinc.REMOVE
    if k == 'na':
        return hszinc.NA
    if k == 'bool':
        return n[1]
    if k == 'num':
        if n[2] is None:
            if WRAP_NUM and not isinstance(n[1], bool):
                return hszinc.Quantity(n[1])         # a Quantity without unit: the same number
            return n[1]
        return hszinc.Quantity(n[1], n[2])
    if k == 'str':
        return n[1]
    if k == 'uri':
        return hszinc.Uri(n[1])
    if k == 'bin':
        return hszinc.Bin(n[1])
    if k == 'ref':
        return hszinc.Ref(n[1], n[2])
    if k == 'xstr':
        return hszinc.XStr(n[1], n[2])
    if k == 'date':
        return datetime.date(n[1], n[2], n[3])
    if k == 'time':
        return datetime.time(n[1], n[2], n[3], n[4])
    if k == 'dt':
        loc = datetime.datetime(*n[1])
        off = datetime.timedelta(seconds=n[2])
        if n[3] is None:
            return loc.replace(tzinfo=datetime.timezone(off))
        # the tz object a user gets for a Haystack zone name is the one hszinc's own
        # zoneinfo API hands out (C17 checks separately that it is the right zone)
        from hszinc import zoneinfo
        tz = zoneinfo.timezone(n[3])
        utc = pytz.utc.localize(loc - off)
        out = utc.astimezone(tz)
        return out
    if k == 'coord':
        return hszinc.Coordinate(n[1], n[2])
    if k == 'list':
        if ALIAS:
            key = repr(n)          # (not n itself: 0 == -0.0 == False and 1 == 1.0 == True as dictionary keys)
            if key not in _alias_memo:
                _alias_memo[key] = [to_hs(x) for x in n[1]]
            return _alias_memo[key]
        return [to_hs(x) for x in n[1]]
    if k == 'dict':
        if ALIAS:
            key = repr(n)
            if key not in _alias_memo:
                _alias_memo[key] = dict((kk, to_hs(x)) for kk, x in n[1])
            return _alias_memo[key]
        return dict((kk, to_hs(x)) for kk, x in n[1])
    if k == 'grid':
        return to_grid(n)
    raise AssertionError(k)


BUILD = None          # None | 'reordered': same grid, its ordered maps filled in another order and then re-ordered


def _initial(items, how):
    """The order in which the items are first put in, for re-ordering method `how`."""
    items = list(items)
    if how in (0, 3):
        return items[::-1]
    if how == 1:
        return sorted(items, key=lambda kv: kv[0], reverse=True)
    return items[1:] + items[:1]


def _reorder(sd, names, how):
    """Bring the ordered map sd (filled in _initial order) into the order `names` through its re-ordering API."""
    if how == 0:
        sd.reverse()
    elif how == 1:
        sd.sort(key=names.index)
    elif how == 2:
        if names:
            sd.add_item(names[0], sd[names[0]], index=0)
    else:
        for i, k in enumerate(names):
            sd.add_item(k, sd[k], index=i)


def to_grid(n):
    _, ver, meta, cols, rows = n
    if BUILD == 'reordered':
        # everything goes through the Grid (constructor, metadata stores, append), only in another order first
        how = (len(cols) + len(meta) + len(rows)) % 4
        how2 = (how + 1) % 4
        g = hszinc.Grid(version=ver,
                        columns=[(c, [(k, to_hs(v)) for k, v in _initial(m, how2)]) for c, m in _initial(cols, how)])
        for k, v in _initial(meta, how):
            g.metadata[k] = to_hs(v)
        _reorder(g.metadata, [k for k, _ in meta], how)
        _reorder(g.column, [c for c, _ in cols], how)
        for c, m in cols:
            _reorder(g.column[c], [k for k, _ in m], how2)
        for row in rows:
            g.append(dict((c, to_hs(v)) for c, v in reversed(row)))
        return g
    g = hszinc.Grid(version=ver,
                    metadata=dict((k, to_hs(v)) for k, v in meta) if meta else None,
                    columns=[(c, [(k, to_hs(v)) for k, v in m]) for c, m in cols])
    if ALIAS:
        _alias_memo.clear()
        memo = {}
        for row in rows:
            key = repr(row)
            if key not in memo:
                memo[key] = dict((c, to_hs(v)) for c, v in row)
            g.append(memo[key])
        return g
    for row in rows:
        g.append(dict((c, to_hs(v)) for c, v in row))
    return g


def wreck(v, depth=0):
    """Destroy, in place, whatever is mutable in a value a caller got back from the library (the caller owns it)."""
    if depth > 6:
        return
    if isinstance(v, hszinc.Grid):
        for row in list(v):
            for x in list(row.values()):
                wreck(x, depth + 1)
            row.clear()
            row['wrecked'] = 'x'
        try:
            del v[:]
        except Exception:   # noqa
            pass
        for k in list(v.metadata.keys()):
            wreck(v.metadata[k], depth + 1)
            del v.metadata[k]
        v.metadata['wrecked'] = 'x'
        for c in list(v.column.keys()):
            m = v.column[c]
            if hasattr(m, 'keys'):
                for k in list(m.keys()):
                    wreck(m[k], depth + 1)
                    del m[k]
    elif isinstance(v, list):
        for x in v:
            wreck(x, depth + 1)
        del v[:]
        v.append('wrecked')
    elif isinstance(v, dict):
        for x in list(v.values()):
            wreck(x, depth + 1)
        v.clear()
        v['wrecked'] = 'x'
    elif isinstance(v, hszinc.XStr):
        try:
            v.data = b'wrecked' if not isinstance(v.data, str) else 'wrecked'
        except Exception:   # noqa
            pass


def from_hs(v):
    """Classify an hszinc API value into N-form with a strict, own ladder."""
    if v is None:
        return D.NULL
    if v is hszinc.MARKER:
        return D.MARKER
    if v is hszinc.REMOVE:
        return D.REMOVE
    if v is hszinc.NA:
        return D.NA
    t = type(v)
    if t is bool:
        return ('bool', v)
    if isinstance(v, Qty):
        u = v.unit
        return ('num', v.value, u if u not in (None, '') else None) if True else None
    if t in (int, float):
        return ('num', v, None)
    if isinstance(v, hszinc.Uri):
        return ('uri', str.__str__(v))
    if isinstance(v, hszinc.Bin):
        return ('bin', str.__str__(v))
    if isinstance(v, str):
        return ('str', str.__str__(v))
    if isinstance(v, hszinc.Ref):
        return ('ref', v.name, v.value if v.has_value else None)
    if isinstance(v, hszinc.XStr):
        return ('xstr', v.encoding, v.data_to_string())
    if isinstance(v, datetime.datetime):
        off = v.utcoffset()
        if off is None:
            return ('naive-dt', v.isoformat())
        zone = getattr(v.tzinfo, 'zone', None)
        return ('dt', (v.year, v.month, v.day, v.hour, v.minute, v.second, v.microsecond),
                off.days * 86400 + off.seconds, zone)
    if isinstance(v, datetime.date):
        return ('date', v.year, v.month, v.day)
    if isinstance(v, datetime.time):
        return ('time', v.hour, v.minute, v.second, v.microsecond)
    if isinstance(v, hszinc.Coordinate):
        return ('coord', v.latitude, v.longitude)
    if isinstance(v, hszinc.Grid):
        return from_grid(v)
    if isinstance(v, (list, tuple)):
        return ('list', tuple(from_hs(x) for x in v))
    if hasattr(v, 'items'):
        return ('dict', tuple((k, from_hs(x)) for k, x in v.items()))
    return ('alien', type(v).__name__, repr(v)[:80])


def from_grid(g):
    meta = tuple((k, from_hs(v)) for k, v in g.metadata.items())
    cols = tuple((c, tuple((k, from_hs(v)) for k, v in (m.items() if m is not None else ())))
                 for c, m in g.column.items())
    rows = tuple(tuple((c, from_hs(v)) for c, v in row.items()) for row in g)
    return ('grid', str(g.version), meta, cols, rows)


_MAPPED = None


def mapped_zones():
    """Haystack zone names hszinc maps on this host (by definition of the property)."""
    global _MAPPED
    if _MAPPED is None:
        from hszinc import zoneinfo
        _MAPPED = sorted(zoneinfo.get_tz_map().keys())
    return _MAPPED
