"""Shared workload + attribution for the writer/reader round-trip properties (C01, C02, C04, C06).

A property module supplies:
    FMT                      'zinc' | 'json'
    judge_grid(n)            -> (symptom|None, detail, artefacts)
    judge_scalar(n, ver)     -> (symptom|None, detail, artefacts)
    judge_multi(ns, single)  -> (symptom|None, detail, artefacts)   (optional)
    in_domain(n)             -> bool   (property-specific domain restrictions, documented in DESIGN 2.1)
"""
import random

from vf import domain as D
from vf import minimize as M


def value_ok_for(n, ver):
    return not (D.needs_v3(('list', (n,))) and ver == '2.0') if n[0] != 'grid' else ver == '3.0'


def scalar_needs_v3(n):
    return n[0] in ('na', 'xstr', 'list', 'dict', 'grid')


def shards(tier, seed, quick_grids=1500, thorough_grids=60000, cat_quick='full'):
    out = []
    out.append({'part': 'scalars', 'cat': 'full'})
    npos = 8
    for i in range(npos):
        out.append({'part': 'positions', 'cat': cat_quick if tier == 'quick' else 'full', 'slice': [i, npos]})
    ng = quick_grids if tier == 'quick' else thorough_grids
    nsh = 14 if tier == 'quick' else 32
    for i in range(nsh):
        out.append({'part': 'grids', 'n': ng // nsh + 1, 'sub': i})
    out.append({'part': 'multi', 'n': 60 if tier == 'quick' else 1500})
    # the same round trips from two / three threads at once (each thread its own grid), under every schedule with few
    # preemptions inside hszinc's own code: whatever the library keeps at module level is shared between them
    out.append({'part': 'threads', 'threads': 2, 'bound': 1 if tier == 'quick' else 2, 'cap': 700 if tier == 'quick' else 20000, 'pick': 0})
    out.append({'part': 'threads', 'threads': 2, 'bound': 1 if tier == 'quick' else 2, 'cap': 700 if tier == 'quick' else 20000, 'pick': 1})
    out.append({'part': 'threads', 'threads': 3, 'bound': 1, 'cap': 700 if tier == 'quick' else 20000, 'pick': 2})
    # the very first zone lookups of a process, from six threads at once (the zone tables are built lazily)
    out.append({'part': 'cold-start', 'rounds': 10 if tier == 'quick' else 100})
    out.append({'part': 'threads', 'threads': 2, 'scalars': True, 'bound': 2, 'cap': 400 if tier == 'quick' else 6000})
    return out


def report(ctx, mod, part, n, symptom, detail, judge, extra=(), case=None):
    # bound the effort on a badly broken tree: after 8 minimised reports of one symptom in this shard the further
    # occurrences are only counted (they would collapse into the same signatures anyway)
    key = 'minimised reports: ' + symptom.split(':')[0]
    if ctx.counters[key] >= 8:
        ctx.count('further occurrences not minimised: ' + symptom.split(':')[0])
        return
    ctx.count(key)

    """Minimise the failing grid, attribute, and record a violation."""
    def fails(c):
        return judge(c)[0]
    try:
        n_min, culprits = M.minimise(n, fails, symptom)
    except Exception as e:      # the minimiser must never hide a violation
        n_min, culprits = n, []
        detail += ' [minimiser failed: %r]' % (e,)
    s2, d2, art = judge(n_min)
    if s2 != symptom:
        n_min, culprits = n, []
        s2, d2, art = symptom, detail, {}
    feats = set(extra)
    ver = n_min[1] if n_min[0] == 'grid' else None
    if ver:
        feats.add('ver=' + ver)
    sig = M.signature(mod.FMT, part, n_min, culprits, symptom, feats)
    what = '%s: %s' % (symptom, d2 or detail)
    if len(culprits) == 1:
        what += ' | offending value %r at %s' % (culprits[0][1], M.position_of(culprits[0][0]))
    if art.get('text') is not None:
        what += ' | text %r' % (art['text'][:300] if isinstance(art['text'], str) else art['text'],)
    ctx.violation(sig, what, case or {'type': 'grid', 'n': D.enc(n_min)})


class _Poison(object):
    """Not a Haystack value: no writer can emit it."""


def _containers(g):
    """(label, put, take) for places inside grid g where a value can be slipped in and taken out again."""
    import hszinc
    out = []

    def visit(v, label):
        if isinstance(v, list):
            out.append((label + '/list', lambda x, v=v: v.append(x), lambda v=v: v.pop()))
            for x in list(v):
                visit(x, label + '/list')
        elif isinstance(v, hszinc.Grid):
            if len(v) and len(v.column):
                c = list(v.column.keys())[0]
                row = v[0]
                old = row.get(c, _Poison)
                out.append((label + '/grid', lambda x, row=row, c=c: row.__setitem__(c, x),
                            lambda row=row, c=c, old=old: row.pop(c) if old is _Poison else row.__setitem__(c, old)))
            for row in v:
                for x in list(row.values()):
                    visit(x, label + '/grid')
        elif isinstance(v, dict):
            out.append((label + '/dict', lambda x, v=v: v.__setitem__('zzPoison', x), lambda v=v: v.pop('zzPoison')))
            for x in list(v.values()):
                visit(x, label + '/dict')
    for row in g:
        for v in list(row.values()):
            visit(v, 'cell')
    for v in list(g.metadata.values()):
        visit(v, 'grid-meta')
    if len(g) and len(g.column):
        c = list(g.column.keys())[-1]
        row = g[len(g) - 1]
        old = row.get(c, _Poison)
        out.append(('cell', lambda x: row.__setitem__(c, x), lambda: row.pop(c) if old is _Poison else row.__setitem__(c, old)))
    return out


def error_path(ctx, mod, n):
    """A dump that fails half-way (something no writer can emit sits somewhere inside the grid) leaves nothing behind:
    once the intruder is taken out again, the very same objects dump exactly as they did before."""
    import hszinc
    from vf import hs as _hs
    mode = {'zinc': hszinc.MODE_ZINC, 'json': hszinc.MODE_JSON}[mod.FMT]
    try:
        g = _hs.to_grid(n)
        t0 = hszinc.dump(g, mode=mode)
    except Exception:
        return
    for label, put, take in _containers(g)[:6]:
        put(_Poison())
        try:
            hszinc.dump(g, mode=mode)
            failed = None
        except Exception as e:   # noqa
            failed = type(e).__name__
        take()
        ctx.case('error-path', D.enc(n), label)
        if failed is None:
            ctx.count('intruder emitted by the writer (not judged)')
            continue
        ctx.count('dumps failed half-way, then retried')
        ctx.cls('error-path', label, failed)
        try:
            t1 = hszinc.dump(g, mode=mode)
            why = None if t1 == t0 else 'text differs: %r vs %r' % (t1[:160], t0[:160])
        except Exception as e:   # noqa
            why = 'raises %s: %s' % (type(e).__name__, str(e)[:120])
        if why:
            ctx.violation({'part': 'history', 'format': mod.FMT, 'position': label, 'kind': 'grid',
                           'symptom': 'dump-after-failed-dump:' + why.split(':')[0].replace(' ', '-'), 'features': []},
                          'a dump failed (%s) because of a foreign object at %s; the object was removed and the same grid dumped '
                          'again: %s' % (failed, label, why), {'type': 'grid', 'n': D.enc(n), 'error_path': True})
            return


def thread_grids(mod, ctx, k, pick):
    """k small grids with pairwise different content (seeded), each of which round-trips cleanly on its own."""
    r = random.Random(ctx.seed * 1000003 + 303 + pick)
    gen = D.Gen(r)
    for kk, v in getattr(mod, 'GEN_OPTIONS', {}).items():
        setattr(gen, kk, v)
    out = []
    tries = 0
    while len(out) < k and tries < 400:
        tries += 1
        n = gen.grid(['3.0', '2.0', '3.0'][len(out) % 3], small=True, maxcols=3, maxrows=2)
        if not all(mod.in_domain(x) for _, x in D.walk(n, 'top')):
            continue
        kinds = {x[0] for _, x in D.walk(n, 'top')}
        if len(kinds) < 4:
            continue
        sym, detail, art = mod.judge_grid(n)
        if sym or not isinstance(art.get('text'), str) or len(art['text']) > 500:
            continue
        out.append(n)
    return out


SCALAR_PAIRS = [
    (('str', 'alpha'), ('str', 'beta')), (('uri', 'http://a/'), ('uri', 'http://b/')), (('ref', 'a', None), ('ref', 'b', None)),
    (('ref', 'a', 'Dis A'), ('ref', 'b', 'Dis B')), (('bin', 'text/a'), ('bin', 'text/b')), (('num', 1.5, None), ('num', 2.5, None)),
    (('num', 1.5, 'kg'), ('num', 2.5, 'm')), (('date', 2020, 1, 2), ('date', 2021, 3, 4)), (('time', 1, 2, 3, 0), ('time', 4, 5, 6, 7000)),
    (('dt', (2020, 6, 1, 12, 0, 0, 0), 7200, 'Berlin'), ('dt', (2021, 1, 5, 3, 4, 5, 0), -18000, 'New_York')),
    (('dt', (2020, 6, 1, 12, 0, 0, 0), 0, 'UTC'), ('dt', (2020, 6, 1, 12, 0, 0, 0), 3600, 'London')),
    (('coord', 1.5, 2.5), ('coord', -3.5, 4.5)), (('xstr', 'Type', 'pa'), ('xstr', 'Other', 'pb')), (('bool', True), ('bool', False)),
    (('list', (('str', 'la'), ('num', 1, None))), ('list', (('str', 'lb'), ('num', 2, None)))),
    (('dict', (('k', ('str', 'da')),)), ('dict', (('k', ('str', 'db')),))),
]


def threads_scalars(mod, spec, ctx):
    """Two threads, each writing and reading one scalar of the same kind: small enough for *every* single- and
    double-preemption schedule, and a per-kind memo kept at module level is hit at once."""
    from vf import threads as T
    n_ok = 0
    for a, b in SCALAR_PAIRS:
        ver = '3.0'
        if not (mod.in_domain(a) and mod.in_domain(b)):
            continue
        if mod.judge_scalar(a, ver)[0] or mod.judge_scalar(b, ver)[0]:
            continue

        def make_jobs(a=a, b=b):
            def job(n):
                sym, detail, art = mod.judge_scalar(n, ver)
                return (sym, art.get('text'))
            return [lambda: job(a), lambda: job(b)]
        label = '%s-scalar/%s' % (mod.FMT, D.kind(a))
        T.explore(ctx, label, make_jobs, spec['bound'], spec['cap'],
                  {'part': 'schedule', 'format': mod.FMT, 'position': 'scalar', 'kind': D.kind(a)},
                  {'type': 'threads', 'spec': spec, 'pair': [D.enc(a), D.enc(b)]})
        n_ok += 1
    ctx.count('scalar kinds run under thread schedules', n_ok)
    ctx.sample({'thread_jobs': '%s scalars' % mod.FMT, 'kinds': n_ok})


def threads_part(mod, spec, ctx, overrides=None):
    from vf import threads as T
    if spec.get('scalars'):
        if overrides is None:
            return threads_scalars(mod, spec, ctx)
        return
    ns = thread_grids(mod, ctx, spec['threads'], spec.get('pick', 0))
    if len(ns) < spec['threads']:
        ctx.inconc('could not build %d clean grids for the thread schedules' % spec['threads'])
        return

    def make_jobs():
        def job(n):
            sym, detail, art = mod.judge_grid(n)
            return (sym, art.get('text'))
        return [lambda n=n: job(n) for n in ns]
    label = '%s-roundtrip/%d' % (mod.FMT, spec.get('pick', 0))
    sig = {'part': 'schedule', 'format': mod.FMT, 'position': 'document', 'kind': 'grid'}
    case = {'type': 'threads', 'spec': spec}
    if overrides is not None:
        T.replay(ctx, label, make_jobs, overrides, sig, case)
        return
    st = T.explore(ctx, label, make_jobs, spec['bound'], spec['cap'], sig, case)
    if spec.get('pick', 0) == 0:
        # and one grid object written by two threads at once (readers share nothing but the grid)
        import hszinc
        from vf import hs as _hs
        mode = {'zinc': hszinc.MODE_ZINC, 'json': hszinc.MODE_JSON}[mod.FMT]

        def same_jobs():
            g = _hs.to_grid(ns[0])
            return [lambda: hszinc.dump(g, mode=mode), lambda: hszinc.dump([g, g], mode=mode)]
        T.explore(ctx, '%s-same-grid' % mod.FMT, same_jobs, spec['bound'], max(100, spec['cap'] // 2), sig, case)
    if st:
        ctx.sample({'thread_jobs': label, 'grids': [D.enc(n) for n in ns][:2], 'schedules': st['schedules'],
                    'distinct_interleavings': len(st['fingerprints'])})


def _edits(n):
    """(label, edit(g) done on the real objects, the N-form the grid denotes afterwards) - edits a program makes between two
    dumps: through the Grid and through the objects it handed in or got back (rows, metadata, values)."""
    import base64
    import hszinc
    _, ver, meta, cols, rows = n
    out = []
    names = [c for c, _ in cols]
    S = ('str', 'edited')
    if rows:
        r0 = dict(rows[0])
        r0[names[0]] = S
        nr0 = tuple((c, r0[c]) for c in names if c in r0)
        out.append(('row-cell-edited-in-place', lambda g: g[0].__setitem__(names[0], 'edited'), ('grid', ver, meta, cols, (nr0,) + rows[1:])))
        out.append(('row-deleted', lambda g: g.__delitem__(0), ('grid', ver, meta, cols, rows[1:])))
    out.append(('row-appended', lambda g: g.append({names[0]: 'edited'}), ('grid', ver, meta, cols, rows + (((names[0], S),),))))
    if meta:
        out.append(('metadata-tag-deleted', lambda g: g.metadata.__delitem__(meta[0][0]), ('grid', ver, meta[1:], cols, rows)))
    if 'zzAdded' not in dict(meta):
        out.append(('metadata-tag-added', lambda g: g.metadata.__setitem__('zzAdded', 'edited'), ('grid', ver, meta + (('zzAdded', S),), cols, rows)))
    if len(cols) > 1:
        out.append(('columns-reversed', lambda g: g.column.reverse(), ('grid', ver, meta, cols[::-1], rows)))
    if 'zzCm' not in dict(cols[0][1]):
        out.append(('column-tag-added', lambda g: g.column[names[0]].__setitem__('zzCm', hszinc.MARKER),
                    ('grid', ver, meta, ((names[0], cols[0][1] + (('zzCm', D.MARKER),)),) + cols[1:], rows)))
    # values edited in place (first of each kind found in a row cell)
    seen = set()
    for ri, row in enumerate(rows):
        for c, v in row:
            k = v[0]
            if k in seen or k not in ('xstr', 'list', 'dict', 'grid'):
                continue
            if k == 'xstr' and v[1] not in ('hex', 'b64'):
                continue

            def put(newv, ri=ri, c=c):
                nrow = tuple((cc, newv if cc == c else vv) for cc, vv in rows[ri])
                return ('grid', ver, meta, cols, rows[:ri] + (nrow,) + rows[ri + 1:])
            if k == 'xstr':
                if v[1] == 'hex':
                    def ed(g, ri=ri, c=c):
                        x = g[ri][c]
                        if isinstance(x.data, bytearray):
                            x.data.extend(b'\x01')
                        else:
                            x.data = bytes(x.data) + b'\x01'
                    out.append(('xstr-payload-edited-in-place', ed, put(('xstr', 'hex', v[2] + '01'))))
                else:
                    raw = base64.b64decode(v[2]) + b'\x01'
                    out.append(('xstr-payload-reassigned', lambda g, ri=ri, c=c, raw=raw: setattr(g[ri][c], 'data', raw),
                                put(('xstr', 'b64', base64.b64encode(raw).decode('ascii')))))
            elif k == 'list':
                out.append(('list-cell-appended-to', lambda g, ri=ri, c=c: g[ri][c].append('edited'), put(('list', v[1] + (S,)))))
            elif k == 'dict' and 'zzK' not in dict(v[1]):
                out.append(('dict-cell-key-added', lambda g, ri=ri, c=c: g[ri][c].__setitem__('zzK', 'edited'), put(('dict', v[1] + (('zzK', S),)))))
            elif k == 'grid' and v[3]:
                c0 = v[3][0][0]
                out.append(('nested-grid-row-appended', lambda g, ri=ri, c=c, c0=c0: g[ri][c].append({c0: 'edited'}),
                            put(('grid', v[1], v[2], v[3], v[4] + (((c0, S),),)))))
            else:
                continue
            seen.add(k)
    return out


def edits_between_dumps(ctx, mod, n):
    """dump, edit, dump again: the second text is that of a freshly built grid with the edited content (nothing the
    first dump left behind - on the grid, on a value, in the module - may stand in for the content)."""
    import hszinc
    from vf import hs as _hs
    mode = {'zinc': hszinc.MODE_ZINC, 'json': hszinc.MODE_JSON}[mod.FMT]
    if n[1] is None:
        # a grid that detects its version never goes back to 2.0 when the value that made it 3.0 is edited away, a freshly
        # built one would start at 2.0: give the version explicitly, the edits are not about it
        n = ('grid', '3.0' if any(x[0] in ('na', 'xstr', 'list', 'dict', 'grid') for p, x in D.walk(n, 'top') if p != 'top') else '2.0') + n[2:]
    for label, edit, n2 in _edits(n):
        try:
            want = hszinc.dump(_hs.to_grid(n2), mode=mode)
            g = _hs.to_grid(n)
            first = hszinc.dump(g, mode=mode)
            repr(g)
        except Exception:
            continue
        try:
            edit(g)
        except Exception:
            ctx.count('edit refused by the grid (not judged)')
            continue
        ctx.case('edit-between-dumps', D.enc(n), label)
        ctx.count('edits between two dumps')
        ctx.cls('edit-between-dumps', label)
        try:
            got = hszinc.dump(g, mode=mode)
            why = None if got == want else 'text %r, a freshly built grid with that content gives %r' % (_cut(got, want), _cut(want, got))
        except Exception as e:   # noqa
            why = 'raises %s: %s' % (type(e).__name__, str(e)[:120])
        if why:
            ctx.violation({'part': 'history', 'format': mod.FMT, 'position': 'document', 'kind': 'grid',
                           'symptom': 'dump-after-edit:' + ('stale' if why.startswith('text') and got == first else why.split(' ')[0].rstrip(':')),
                           'features': ['edit=' + label]},
                          'grid dumped, then %s, then dumped again: %s' % (label, why), {'type': 'grid', 'n': D.enc(n), 'edits': True})
            return


def _cut(a, b):
    """The part of a around the first difference with b."""
    i = 0
    while i < min(len(a), len(b)) and a[i] == b[i]:
        i += 1
    return a[max(0, i - 40):i + 60]


def cold_start_part(mod, spec, ctx):
    import pytz
    from vf.props import c17

    def work(Z, tz, t):
        loc = pytz.utc.localize(t).astimezone(tz)
        n = ('dt', (loc.year, loc.month, loc.day, loc.hour, loc.minute, loc.second, loc.microsecond),
             int(loc.utcoffset().total_seconds()), Z)
        g = ('grid', '3.0', (('when', n),), (('ts', ()),), ((('ts', n),),))
        out = []
        for judge, arg in ((mod.judge_scalar, (n, '3.0')), (mod.judge_grid, (g,))):
            sym, detail, art = judge(*arg)
            out.append((sym, '%s | text %r' % (detail, (art.get('text') or '')[:160])) if sym else None)
        return out
    c17.cold_start(spec, ctx, work, {'part': 'cold-start', 'format': mod.FMT, 'position': 'cell', 'kind': 'dt'})


def run_shard(mod, spec, ctx):
    part = spec['part']
    if part == 'cold-start':
        return cold_start_part(mod, spec, ctx)
    if part == 'threads':
        return threads_part(mod, spec, ctx)
    if part == 'scalars':
        cat = D.catalogue(spec['cat'])
        for n in cat:
            if not mod.in_domain(n):
                ctx.count('outside the property domain (not judged)')
                continue
            for ver in ('2.0', '3.0'):
                if scalar_needs_v3(n) and ver == '2.0':
                    continue
                ctx.case('scalar', D.enc(n), ver)
                ctx.cls('scalar', D.kind(n), 'v' + ver)
                sym, detail, art = mod.judge_scalar(n, ver)
                ctx.count('scalar round trips')
                if sym:
                    n2 = n
                    if n[0] in ('str', 'uri', 'bin') and len(n[1]) > 1:
                        s2 = M.shrink_text(n[1], lambda t: mod.judge_scalar((n[0], t), ver)[0] == sym)
                        n2 = (n[0], s2)
                    elif n[0] == 'ref' and n[2]:
                        n2 = ('ref', n[1], M.shrink_text(n[2], lambda t: mod.judge_scalar(('ref', n[1], t), ver)[0] == sym))
                    elif n[0] == 'xstr' and n[1] not in ('hex', 'b64'):
                        n2 = ('xstr', n[1], M.shrink_text(n[2], lambda t: mod.judge_scalar(('xstr', n[1], t), ver)[0] == sym))
                    sym2, detail2, art2 = mod.judge_scalar(n2, ver)
                    ctx.violation({'part': 'scalar', 'format': mod.FMT, 'position': 'scalar', 'kind': D.kind(n2),
                                   'symptom': sym, 'features': sorted(D.features(n2) | {'ver=' + ver})},
                                  '%s: %s | value %r | text %r' % (sym, detail2, n2, art2.get('text')),
                                  {'type': 'scalar', 'n': D.enc(n2), 'ver': ver})
        # date-times that carry a bare UTC offset (no zone), the same offset in January and in July, in one grid and in
        # both orders: the zone the writer picks must have that offset at *that* instant (or the writer refuses: C17)
        for off in range(-12 * 3600, 14 * 3600 + 1, 1800):
            for order in (0, 1):
                a = ('dt', (2021, 1, 15, 12, 30, 0, 0), off, None)
                b = ('dt', (2021, 7, 15, 12, 30, 0, 0), off, None)
                if order:
                    a, b = b, a
                g = ('grid', '3.0', (), (('ts', ()), ('v', ())), ((('ts', a), ('v', ('num', 1, None))), (('ts', b), ('v', ('num', 2, None)))))
                ctx.case('seasons', off, order)
                sym, detail, art = mod.judge_grid(g)
                ctx.count('fixed-offset January/July pairs')
                if sym and sym.startswith('dump-raises:ValueError'):
                    ctx.count('fixed-offset stamp refused by the writer with ValueError (allowed, C17)')
                elif sym:
                    ctx.violation({'part': 'grid', 'format': mod.FMT, 'position': 'cell', 'kind': 'dt', 'symptom': sym,
                                   'features': ['no-zone', 'same-offset-two-seasons']},
                                  '%s: %s | two stamps with the bare offset %+d s, in %s order | text %r' % (
                                      sym, detail, off, 'July, January' if order else 'January, July', (art.get('text') or '')[:300]),
                                  {'type': 'grid', 'n': D.enc(g)})
        ctx.sample({'scalar': D.enc(cat[20]), 'text': mod.judge_scalar(cat[20], '3.0')[2].get('text')})
    elif part == 'positions':
        cat = D.catalogue(spec['cat'])
        i, m = spec['slice']
        shown = False
        for idx, n in enumerate(cat):
            if idx % m != i:
                continue
            if not mod.in_domain(n):
                continue
            for ver in ('2.0', '3.0'):
                if scalar_needs_v3(n) and ver == '2.0':
                    continue
                for pos in (D.POSITIONS_2 if ver == '2.0' else D.POSITIONS_3):
                    g = D.sentinel_grid(n, pos, ver)
                    ctx.case('position', D.enc(n), pos, ver)
                    ctx.cls('position', D.kind(n), pos, 'v' + ver)
                    sym, detail, art = mod.judge_grid(g)
                    ctx.count('position round trips')
                    if sym:
                        report(ctx, mod, 'position', g, sym, detail, mod.judge_grid)
                    elif pos == 'cell' and idx % 3 == 0:
                        # the same value as an instance of a *subclass* of its type: still that kind of value
                        from vf import hs as _hs
                        _hs.SUBCLASS = True
                        try:
                            sym, detail, art = mod.judge_grid(g)
                        finally:
                            _hs.SUBCLASS = False
                        ctx.count('subclass-instance round trips')
                        ctx.cls('subclass', D.kind(n), 'v' + ver)
                        if sym and sym.split(':')[0] not in ('build-raises',):
                            ctx.violation({'part': 'position', 'format': mod.FMT, 'position': pos, 'kind': D.kind(n), 'symptom': sym,
                                           'features': ['subclass-instance', 'ver=' + ver]},
                                          'value %r built as an instance of a subclass of its type: %s: %s | text %r' % (
                                              n, sym, detail, (art.get('text') or '')[:200] if isinstance(art.get('text'), str) else art.get('text')),
                                          {'type': 'grid', 'n': D.enc(g), 'subclass': True})
                    elif pos in ('cell', 'grid-meta', 'list-elem') and n[0] == 'num' and n[2] is None and not isinstance(n[1], bool):
                        from vf import hs as _hs
                        _hs.WRAP_NUM = True
                        try:
                            sym2, detail2, art2 = mod.judge_grid(g)
                        finally:
                            _hs.WRAP_NUM = False
                        ctx.count('unit-less Quantity round trips')
                        if sym2 or art2.get('text') != art.get('text'):
                            ctx.violation({'part': 'position', 'format': mod.FMT, 'position': pos, 'kind': 'num',
                                           'symptom': 'depends-on-how-the-grid-was-built:' + (sym2 or 'text-differs'),
                                           'features': sorted(D.features(n) | {'build=unitless-quantity', 'ver=' + ver})},
                                          'number %r given as hszinc.Quantity(v) (no unit): %s: %s | text %r, text of the bare number %r' % (
                                              n[1], sym2, detail2, (art2.get('text') or '')[:200], (art.get('text') or '')[:200]),
                                          {'type': 'grid', 'n': D.enc(g), 'build': 'unitless-quantity'})
                    elif not shown and pos == 'dict-value':
                        ctx.sample({'position': pos, 'value': D.enc(n), 'text': art.get('text')})
                        shown = True
    elif part == 'grids':
        r = random.Random(ctx.seed * 1000003 + 101 + spec['sub'])
        gen = D.Gen(r)
        for k, v in getattr(mod, 'GEN_OPTIONS', {}).items():
            setattr(gen, k, v)
        remembered = []          # (grid, text of its first dump): dumping must not depend on what was dumped before
        for gi in range(spec['n']):
            ver = r.choice(['2.0', '3.0', '3.0', None])
            n = gen.grid(ver)
            if not all(mod.in_domain(x) for _, x in D.walk(n, 'top')):
                ctx.count('outside the property domain (not judged)')
                continue
            ctx.case('grid', D.enc(n))
            for pos, x in D.walk(n, 'top'):
                if pos != 'top':
                    ctx.cls('grid', D.kind(x), pos, 'v' + str(ver))
            sym, detail, art = mod.judge_grid(n)
            ctx.count('grid round trips')
            if sym in getattr(mod, 'NOT_JUDGED', ()) and any(x[0] == 'dt' and x[3] is None for _, x in D.walk(n, 'top')):
                ctx.count('zone-less date-time refused by the writer with ValueError (allowed, C17)')
                continue
            if sym:
                report(ctx, mod, 'grid', n, sym, detail, mod.judge_grid)
            elif gi == 0:
                ctx.sample({'grid': D.enc(n), 'text': art.get('text')})
            if not sym and len(remembered) < 150 and art.get('text') is not None:
                remembered.append((n, art['text']))
            if not sym and gi % 3 == 0 and art.get('text') is not None:
                # the same grid, its ordered maps (metadata, columns, column metadata) filled in another order and brought
                # into this order through reverse() / sort() / add_item(index=): same grid, so same text and same verdict
                from vf import hs as _hs
                _hs.BUILD = 'reordered'
                try:
                    sym2, detail2, art2 = mod.judge_grid(n)
                finally:
                    _hs.BUILD = None
                ctx.count('grids also built by re-ordering their ordered maps')
                if not sym2 and art2.get('text') == art['text'] and any(x[0] == 'num' and x[2] is None for _, x in D.walk(n, 'top')):
                    # and with every unit-less number given as hszinc.Quantity(v): the same number, so the same text
                    _hs.WRAP_NUM = True
                    try:
                        sym2, detail2, art2 = mod.judge_grid(n)
                    finally:
                        _hs.WRAP_NUM = False
                    ctx.count('grids also built with unit-less Quantity objects for plain numbers')
                    if sym2 or art2.get('text') != art['text']:
                        ctx.violation({'part': 'grid', 'format': mod.FMT, 'position': 'document', 'kind': 'num',
                                       'symptom': 'depends-on-how-the-grid-was-built:' + (sym2 or 'text-differs'), 'features': ['build=unitless-quantity']},
                                      'grid whose plain numbers were given as hszinc.Quantity(v) (no unit): %s; text %r, text with bare numbers %r' % (
                                          sym2 or 'another text', (art2.get('text') or '')[:200], art['text'][:200]),
                                      {'type': 'grid', 'n': D.enc(n), 'build': 'unitless-quantity'})
                        sym2 = None
                        art2 = art
                if sym2 or art2.get('text') != art['text']:
                    ctx.violation({'part': 'grid', 'format': mod.FMT, 'position': 'document', 'kind': 'grid',
                                   'symptom': 'depends-on-how-the-grid-was-built:' + (sym2 or 'text-differs'), 'features': ['build=reordered']},
                                  'grid whose metadata / columns were put in in another order and then re-ordered (reverse, sort, add_item '
                                  'index=): %s; text %r, text of the plainly built grid %r' % (
                                      sym2 or 'another text', (art2.get('text') or '')[:200], art['text'][:200]),
                                  {'type': 'grid', 'n': D.enc(n), 'build': 'reordered'})
            if not sym and gi % 4 == 1:
                error_path(ctx, mod, n)
            if not sym and gi % 4 == 3:
                edits_between_dumps(ctx, mod, n)
            if not sym and gi % 5 == 2 and n[4]:
                # the last row once more; then the same grid with its equal rows / equal containers being one and the
                # same Python object: it is the same grid, so the same text and the same verdict
                from vf import hs as _hs
                n2 = n[:4] + (n[4] + (n[4][-1],) + ((n[4][0],) if len(n[4]) > 1 else ()),)
                sym1, detail1, art1 = mod.judge_grid(n2)
                _hs.ALIAS = True
                try:
                    sym2, detail2, art2 = mod.judge_grid(n2)
                finally:
                    _hs.ALIAS = False
                ctx.count('grids also built with shared row / container objects')
                if not sym1 and (sym2 or art2.get('text') != art1.get('text')):
                    ctx.violation({'part': 'grid', 'format': mod.FMT, 'position': 'document', 'kind': 'grid',
                                   'symptom': 'depends-on-how-the-grid-was-built:' + (sym2 or 'text-differs'), 'features': ['build=shared-objects']},
                                  'grid whose equal rows (and equal list / dict values) are the same Python object: %s; text %r, text with '
                                  'separate objects %r' % (sym2 or 'another text', (art2.get('text') or '')[:200], (art1.get('text') or '')[:200]),
                                  {'type': 'grid', 'n': D.enc(n2), 'build': 'shared-objects'})
        # history independence: the same grids dumped again, in reverse order and after everything else this process
        # has dumped, must give exactly the same text (a cache keyed on too little shows up here)
        for n, text in reversed(remembered):
            sym, detail, art = mod.judge_grid(n)
            ctx.count('re-dumps compared with the first dump')
            if sym or art.get('text') != text:
                ctx.violation({'part': 'history', 'format': mod.FMT, 'position': 'document', 'kind': 'grid',
                               'symptom': 'dump-depends-on-history', 'features': []},
                              'the same grid dumped later in the same process gives %s (first dump %r, later %r)' % (
                                  sym or 'another text', text[:200], (art.get('text') or '')[:200]),
                              {'type': 'grid', 'n': D.enc(n)})
                break
    elif part == 'multi':
        if not hasattr(mod, 'judge_multi'):
            return
        r = random.Random(ctx.seed * 1000003 + 202)
        gen = D.Gen(r)
        for i in range(spec['n']):
            k = [0, 1, 2, 3, 2, 3][i % 6]
            ns = []
            while len(ns) < k:
                n = gen.grid(r.choice(['2.0', '3.0']), small=r.random() < 0.5)
                if all(mod.in_domain(x) for _, x in D.walk(n, 'top')):
                    ns.append(n)
            for single in (False, True):
                ctx.case('multi', [D.enc(n) for n in ns], single)
                ctx.cls('multi', 'k=%d' % k, 'single=%s' % single)
                sym, detail, art = mod.judge_multi(ns, single)
                ctx.count('multi-grid round trips')
                if sym:
                    # is it the framing, or one of the grids? judge each grid alone first
                    alone = [mod.judge_grid(n)[0] for n in ns]
                    if any(alone):
                        continue        # a single-grid defect, reported by the grid workloads
                    # shrink the grids to sentinels while the framing symptom persists
                    small = [('grid', n[1], (), (('a', ()),), ((('a', M.SENT),),)) for n in ns]
                    if mod.judge_multi(small, single)[0] == sym:
                        ns2 = small
                    else:
                        ns2 = ns
                    s2, d2, a2 = mod.judge_multi(ns2, single)
                    ctx.violation({'part': 'multi', 'format': mod.FMT, 'position': 'document', 'kind': 'grids',
                                   'symptom': sym, 'features': ['k=%d' % k, 'single=%s' % single]},
                                  '%s: %s | text %r' % (sym, d2, (a2.get('text') or '')[:200]),
                                  {'type': 'multi', 'ns': [D.enc(n) for n in ns2], 'single': single})
        # mode spellings: the MODE_* constants and the accepted aliases must behave alike
        import hszinc
        aliases = {'zinc': ['zinc', 'ZINC', 'Zinc', hszinc.MODE_ZINC], 'json': ['json', 'JSON', 'Json', hszinc.MODE_JSON]}[mod.FMT]
        const = aliases[-1]
        from vf import hs as _hs
        for k in (0, 1, 2, 3):
            ns = []
            while len(ns) < k:
                n = gen.grid(r.choice(['2.0', '3.0']), small=True)
                if all(mod.in_domain(x) for _, x in D.walk(n, 'top')) and not mod.judge_grid(n)[0]:
                    ns.append(n)
            gs = [_hs.to_grid(n) for n in ns]
            try:
                ref_text = hszinc.dump(gs, mode=const)
            except Exception:
                continue
            for al in aliases[:-1]:
                for arg in ((gs, 'list'), (tuple(gs), 'tuple')) + (((gs[0], 'grid'),) if k == 1 else ()):
                    ctx.case('mode-alias', al, k, arg[1])
                    ctx.count('mode alias comparisons')
                    try:
                        t = hszinc.dump(arg[0], mode=al)
                        ok = (t == (ref_text if arg[1] != 'grid' else hszinc.dump(gs[0], mode=const)))
                        why = 'text differs: %r vs %r' % (t[:120], ref_text[:120])
                        if ok:
                            back = hszinc.parse(t, mode=al, single=False)
                            ok = isinstance(back, list) and len(back) == (k if arg[1] != 'grid' else 1)
                            why = 'parse(mode=%r) gave %r grids' % (al, len(back) if isinstance(back, list) else back)
                    except Exception as e:   # noqa
                        ok, why = False, 'raised %s: %s' % (type(e).__name__, str(e)[:80])
                    if not ok:
                        ctx.violation({'part': 'multi', 'format': mod.FMT, 'position': 'document', 'kind': 'grids', 'symptom': 'mode-alias-differs',
                                       'features': ['k=%d' % k, 'arg=' + arg[1]]},
                                      'dump/parse with mode=%r (an accepted spelling of %r) on %d grid(s) given as %s: %s' % (al, const, k, arg[1], why),
                                      {'type': 'multi', 'ns': [D.enc(n) for n in ns], 'single': False})
        ctx.sample({'multi': 'k in 0..3 grids per document, single in {False, True}; mode aliases %r' % (aliases,)})


def replay(mod, case, ctx):
    t = case.get('type')
    if case.get('cold_start'):
        return cold_start_part(mod, {'part': 'cold-start', 'rounds': 30}, ctx)
    if t == 'threads' and 'pair' in case:
        from vf import threads as T
        a, b = [D.dec(x) for x in case['pair']]

        def make_jobs():
            def job(n):
                sym, detail, art = mod.judge_scalar(n, '3.0')
                return (sym, art.get('text'))
            return [lambda: job(a), lambda: job(b)]
        T.replay(ctx, '%s-scalar/%s' % (mod.FMT, D.kind(a)), make_jobs, case.get('overrides', []),
                 {'part': 'schedule', 'format': mod.FMT, 'position': 'scalar', 'kind': D.kind(a)}, case)
        return
    if t == 'threads':
        return threads_part(mod, case['spec'], ctx, case.get('overrides', []))
    if t == 'scalar':
        n = D.dec(case['n'])
        sym, detail, art = mod.judge_scalar(n, case['ver'])
        if sym:
            ctx.violation({'part': 'scalar', 'format': mod.FMT, 'position': 'scalar', 'kind': D.kind(n), 'symptom': sym,
                           'features': sorted(D.features(n) | {'ver=' + case['ver']})},
                          '%s: %s | text %r' % (sym, detail, art.get('text')), case)
    elif t == 'multi':
        ns = [D.dec(x) for x in case['ns']]
        sym, detail, art = mod.judge_multi(ns, case['single'])
        if sym:
            ctx.violation({'part': 'multi', 'format': mod.FMT, 'position': 'document', 'kind': 'grids', 'symptom': sym,
                           'features': ['k=%d' % len(ns), 'single=%s' % case['single']]}, '%s: %s' % (sym, detail), case)
    elif case.get('error_path'):
        error_path(ctx, mod, D.dec(case['n']))
    elif case.get('edits'):
        edits_between_dumps(ctx, mod, D.dec(case['n']))
    elif case.get('build'):
        from vf import hs as _hs
        n = D.dec(case['n'])
        sym, detail, art = mod.judge_grid(n)
        if case['build'] == 'unitless-quantity':
            _hs.WRAP_NUM = True
        elif case['build'] == 'shared-objects':
            _hs.ALIAS = True
        else:
            _hs.BUILD = case['build']
        try:
            sym2, detail2, art2 = mod.judge_grid(n)
        finally:
            _hs.BUILD = None
            _hs.WRAP_NUM = False
            _hs.ALIAS = False
        if sym2 or art2.get('text') != art.get('text'):
            ctx.violation({'part': 'grid', 'format': mod.FMT, 'position': 'document', 'kind': 'grid',
                           'symptom': 'depends-on-how-the-grid-was-built:' + (sym2 or 'text-differs'), 'features': ['build=' + case['build']]},
                          '%s / %r vs %r' % (sym2, (art2.get('text') or '')[:200], (art.get('text') or '')[:200]), case)
    else:
        n = D.dec(case['n'])
        sym, detail, art = mod.judge_grid(n)
        if sym:
            report(ctx, mod, case.get('part', 'grid'), n, sym, detail, mod.judge_grid)
