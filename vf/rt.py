"""Boundary recorders for dump/parse round trips (C01, C02, C04, C06, C07, C08).

Every function runs the real hszinc API on a value built from N-form and returns
(symptom|None, detail, artefacts) where symptom is a coarse, observable class:
dump-raises:<Exc> / parse-raises:<Exc> / kind-changed:<a>>b> / content-changed / shape-changed ...
"""
import json

from vf import domain as D
from vf import hs


def _name(e):
    return type(e).__name__


def expected_of(n, g):
    """The grid that went in, as N-form; a defaulted version is read off the Grid object."""
    if n[1] is None:
        return ('grid', str(g.version)) + tuple(n[2:])
    return n


def grid_rt(n, mode, tol, parse_kwargs=None, text_hook=None):
    import hszinc
    art = {}
    try:
        g = hs.to_grid(n)
    except Exception as e:
        return 'build-raises:' + _name(e), str(e)[:200], art
    exp = expected_of(n, g)
    try:
        text = hszinc.dump(g, mode=mode)
    except Exception as e:
        return 'dump-raises:' + _name(e), str(e)[:200], art
    art['text'] = text
    if text_hook is not None:
        r = text_hook(text, exp)
        if r is not None:
            return r[0], r[1], art
    try:
        back = hszinc.parse(text, mode=mode, **(parse_kwargs or {}))
    except Exception as e:
        return 'parse-raises:' + _name(e), str(e)[:300], art
    if not isinstance(back, hszinc.Grid):
        return 'parse-returned:' + type(back).__name__, '', art
    got = hs.from_grid(back)
    d = D.grid_diff(exp, got, tol)
    if d:
        art['path'] = d[0]
        return d[1], '%s: %s' % (d[0], d[2]), art
    return None, '', art


def scalar_rt(n, mode, ver, tol):
    import hszinc
    art = {}
    try:
        v = hs.to_hs(n)
    except Exception as e:
        return 'build-raises:' + _name(e), str(e)[:200], art
    try:
        text = hszinc.dump_scalar(v, mode=mode, version=hszinc.Version(ver))
    except Exception as e:
        return 'dump-raises:' + _name(e), str(e)[:200], art
    art['text'] = text
    try:
        if mode == hs.JSON and not isinstance(text, str):
            # the JSON scalar writer hands back JSON-ready objects (None, bool, list, dict)
            back = hszinc.parse_scalar(json.dumps(text) if isinstance(text, (list, dict)) else text,
                                       mode=mode, version=ver)
        else:
            back = hszinc.parse_scalar(text, mode=mode, version=ver)
    except Exception as e:
        return 'parse-raises:' + _name(e), str(e)[:300], art
    d = D.diff(n, hs.from_hs(back), tol)
    if d:
        return d[1], '%s: %s' % (d[0], d[2]), art
    return None, '', art


def multi_rt(ns, mode, tol, single):
    """dump([g1..gk]) then parse(single=...)."""
    import hszinc
    art = {}
    gs = [hs.to_grid(n) for n in ns]
    exps = [expected_of(n, g) for n, g in zip(ns, gs)]
    try:
        text = hszinc.dump(gs, mode=mode)
    except Exception as e:
        return 'dump-raises:' + _name(e), str(e)[:200], art
    art['text'] = text
    try:
        back = hszinc.parse(text, mode=mode, single=single)
    except Exception as e:
        return 'parse-raises:' + _name(e), str(e)[:300], art
    if single:
        if not ns:
            if back is not None:
                return 'shape-changed', 'empty document with single=True gave %r' % (back,), art
            return None, '', art
        if not isinstance(back, hszinc.Grid):
            return 'shape-changed', 'single=True returned %r' % (type(back).__name__,), art
        d = D.grid_diff(exps[0], hs.from_grid(back), tol)
        return (d[1], '%s: %s' % (d[0], d[2]), art) if d else (None, '', art)
    if not isinstance(back, list) or len(back) != len(ns):
        return 'shape-changed', 'dumped %d grids, parsed %r' % (len(ns), len(back) if isinstance(back, list) else back), art
    for i, (e, b) in enumerate(zip(exps, back)):
        d = D.grid_diff(e, hs.from_grid(b), tol)
        if d:
            return d[1], 'grid %d %s: %s' % (i, d[0], d[2]), art
    return None, '', art
