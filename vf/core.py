"""Core of the runtime-monitoring framework: shards, verdicts, evidence, findings.

A property driver (vf/props/cNN.py) exposes

    PROP      = 'C01'
    RULE      = 'how cases are generated and what makes one distinct / non-trivial'
    ASSUME    = [...]                      # trusted base, goes to evidence.assumptions
    def shards(tier, seed) -> [spec, ...]  # JSON-able shard descriptions
    def run_shard(spec, ctx)               # generate cases, call hszinc, feed ctx
    def replay(case, ctx)                  # re-execute exactly one recorded case
    def finish(ctx, merged)   (optional)   # parent-side thresholds -> inconclusive

Workers are separate interpreters (subprocess.run + timeout, never
multiprocessing.Pool) started with -B so nothing stale from /repo is reused;
each writes one JSON result file.  Only the parent prints verdict lines.
"""
import hashlib
import json
import os
import re
import subprocess
import sys
import time
import traceback
from collections import Counter
from concurrent.futures import ThreadPoolExecutor

ROOT = os.path.dirname(os.path.dirname(os.path.abspath(__file__)))
REPO = os.environ.get('VERIF_REPO', '/repo')
PY = os.environ.get('VERIF_PYTHON', '/venv/bin/python')
NPROC = int(os.environ.get('VERIF_NPROC', '16'))

MAX_SAMPLES = 12
MAX_WITNESS_PER_SIG = 1


def h64(*parts):
    """Stable 64-bit hash of a case description (independent of PYTHONHASHSEED)."""
    m = hashlib.blake2b(digest_size=8)
    for p in parts:
        if not isinstance(p, (bytes, bytearray)):
            p = repr(p).encode('utf-8', 'surrogatepass')
        m.update(p)
        m.update(b'\x00')
    return int.from_bytes(m.digest(), 'big')


class Sink(object):
    """Replacement for sys.stdout while hszinc runs (it prints debug text).

    It encodes what is written exactly as a UTF-8 terminal would, so a debug
    print that cannot be encoded fails here the same way it fails for a user.
    """
    encoding = 'utf-8'

    def __init__(self):
        self.n = 0

    def write(self, s):
        if isinstance(s, str):
            s.encode('utf-8')
        self.n += len(s)
        return len(s)

    def flush(self):
        pass

    def isatty(self):
        return False


class Ctx(object):
    """Per-shard collector handed to drivers."""

    def __init__(self, prop, tier, seed, shard=0):
        self.prop = prop
        self.tier = tier
        self.seed = seed
        self.shard = shard
        self.counters = Counter()
        self.samples = []
        self.violations = {}      # signature -> {sig, what, case, n}
        self.distinct = set()     # 64-bit hashes of distinct non-trivial cases
        self.classes = set()      # coarse coverage classes (strings)
        self.notes = []
        self.inconclusive = []
        self.evaluations = 0

    # -- what the monitors observed ------------------------------------
    def count(self, key, n=1):
        self.counters[key] += n

    def case(self, *desc, nontrivial=True):
        """Register one executed case; desc identifies it."""
        self.evaluations += 1
        if nontrivial:
            self.distinct.add(h64(*desc))

    def cls(self, *parts):
        self.classes.add('/'.join(str(p) for p in parts))

    def sample(self, obj, every=1):
        if len(self.samples) < MAX_SAMPLES:
            self.samples.append(obj)

    def note(self, text):
        if len(self.notes) < 50:
            self.notes.append(text)

    # -- verdict inputs --------------------------------------------------
    def violation(self, sig, what, case):
        """sig: dict with part/format/position/kind/symptom/features."""
        key = sig_str(self.prop, sig)
        v = self.violations.get(key)
        if v is None:
            self.violations[key] = {'sig': sig, 'key': key, 'what': what,
                                    'case': case, 'n': 1}
        else:
            v['n'] += 1
            # keep the smallest witness
            if _size(case) < _size(v['case']):
                v['case'] = case
                v['what'] = what

    def inconc(self, reason):
        if reason not in self.inconclusive:
            self.inconclusive.append(reason)

    def result(self):
        return {
            'counters': dict(self.counters),
            'samples': self.samples,
            'violations': list(self.violations.values()),
            'distinct': sorted(self.distinct),
            'classes': sorted(self.classes),
            'notes': self.notes,
            'inconclusive': self.inconclusive,
            'evaluations': self.evaluations,
        }


def _size(obj):
    try:
        return len(json.dumps(obj, default=repr))
    except Exception:
        return 1 << 30


def sig_str(prop, sig):
    feats = ','.join(sorted(sig.get('features', [])))
    return '%s/%s/%s/%s/%s/{%s}/%s' % (
        prop, sig.get('part', '-'), sig.get('format', '-'),
        sig.get('position', '-'), sig.get('kind', '-'), feats,
        sig.get('symptom', '-'))


# ---------------------------------------------------------------------------
# Known findings
# ---------------------------------------------------------------------------

def load_findings():
    path = os.path.join(ROOT, 'known_findings.json')
    if not os.path.exists(path):
        return []
    with open(path) as f:
        return json.load(f)['findings']


def _field_match(pat, val):
    if pat is None:
        return True
    if isinstance(pat, list):
        return val in pat
    if isinstance(pat, str) and pat.startswith('re:'):
        return re.fullmatch(pat[3:], val or '') is not None
    return pat == val


def finding_for(prop, sig, findings):
    """Return the open known finding whose pattern matches this signature."""
    feats = set(sig.get('features', []))
    for f in findings:
        if f.get('property') != prop or f.get('status') != 'open':
            continue
        m = f['match']
        ok = True
        for fld in ('part', 'format', 'position', 'kind', 'symptom'):
            if not _field_match(m.get(fld), sig.get(fld, '-')):
                ok = False
                break
        if not ok:
            continue
        if not set(m.get('features_all', [])) <= feats:
            continue
        anyof = m.get('features_any')
        if anyof and not (set(anyof) & feats):
            continue
        if set(m.get('features_none', [])) & feats:
            continue
        only = m.get('features_only')
        if only is not None and not feats <= set(only):
            continue
        return f
    return None


# ---------------------------------------------------------------------------
# Parent: run shards, merge, judge, write evidence
# ---------------------------------------------------------------------------

def ensure_deps():
    if not os.path.isdir(os.path.join(ROOT, '.deps', 'icontract')):
        subprocess.run([os.path.join(ROOT, 'setup.sh')], check=False,
                       stdout=subprocess.DEVNULL)


def worker_env(extra=None):
    env = dict(os.environ)
    env['PYTHONDONTWRITEBYTECODE'] = '1'
    env.setdefault('PYTHONHASHSEED', '0')
    env['PYTHONPATH'] = os.pathsep.join([ROOT, REPO, os.path.join(ROOT, '.deps')])
    env['VERIF_REPO'] = REPO
    env['HSZINC_VERIF'] = '1'
    if extra:
        env.update(extra)
    return env


def _run_one(prop, tier, seed, idx, spec, workdir, timeout):
    spec_path = os.path.join(workdir, 'spec_%d.json' % idx)
    out_path = os.path.join(workdir, 'out_%d.json' % idx)
    with open(spec_path, 'w') as f:
        json.dump(spec, f)
    cmd = [PY, '-B', '-m', 'vf.worker', prop, tier, str(seed), str(idx),
           spec_path, out_path]
    t0 = time.time()
    env = worker_env(spec.get('env') if isinstance(spec, dict) else None)
    try:
        p = subprocess.run(cmd, cwd=ROOT, env=env, timeout=timeout, stdin=subprocess.DEVNULL,
                           stdout=subprocess.PIPE, stderr=subprocess.PIPE)
    except subprocess.TimeoutExpired:
        return {'_status': 'timeout', '_idx': idx, '_wall': time.time() - t0}
    if p.returncode != 0 or not os.path.exists(out_path):
        return {'_status': 'crash', '_idx': idx, '_wall': time.time() - t0,
                '_rc': p.returncode,
                '_stderr': p.stderr.decode('utf-8', 'replace')[-3000:]}
    with open(out_path) as f:
        res = json.load(f)
    os.unlink(out_path)
    os.unlink(spec_path)
    res['_status'] = 'ok'
    res['_idx'] = idx
    res['_wall'] = time.time() - t0
    return res


def slug(key):
    s = re.sub(r'[^A-Za-z0-9_.=+-]+', '_', key).strip('_')
    if len(s) > 120:
        s = s[:100] + '_' + hashlib.sha1(key.encode()).hexdigest()[:10]
    return s


def run_check(driver, tier, seed, shard_timeout=None):
    """Run every shard of a driver, merge, judge, write evidence; return exit code."""
    prop = driver.PROP
    t0 = time.time()
    ensure_deps()
    workdir = os.path.join(ROOT, '.work', '%s_%s_%d_%d' % (prop, tier, seed, os.getpid()))
    os.makedirs(workdir, exist_ok=True)
    specs = list(driver.shards(tier, seed))
    if shard_timeout is None:
        shard_timeout = getattr(driver, 'SHARD_TIMEOUT', {}).get(tier, 1500 if tier == 'quick' else 7200)
    results = []
    with ThreadPoolExecutor(max_workers=NPROC) as ex:
        futs = [ex.submit(_run_one, prop, tier, seed, i, s, workdir, shard_timeout)
                for i, s in enumerate(specs)]
        for f in futs:
            results.append(f.result())
    try:
        os.rmdir(workdir)
    except OSError:
        pass

    merged = {'counters': Counter(), 'samples': [], 'violations': {}, 'distinct': set(),
              'classes': set(), 'notes': [], 'inconclusive': [], 'evaluations': 0,
              'shards': len(specs), 'shards_ok': 0}
    merged['shard_walls'] = sorted(((round(r.get('_wall', 0), 1), r['_idx']) for r in results), reverse=True)[:5]
    for r in results:
        if r['_status'] != 'ok':
            merged['inconclusive'].append('shard %d %s %s' % (
                r['_idx'], r['_status'], (r.get('_stderr') or '').strip().splitlines()[-1:] or ''))
            if r.get('_stderr'):
                sys.stderr.write(r['_stderr'] + '\n')
            continue
        merged['shards_ok'] += 1
        merged['counters'].update(r['counters'])
        merged['evaluations'] += r['evaluations']
        merged['distinct'].update(r['distinct'])
        merged['classes'].update(r['classes'])
        merged['notes'].extend(r['notes'])
        for why in r['inconclusive']:
            if why not in merged['inconclusive']:
                merged['inconclusive'].append(why)
        for v in r['violations']:
            cur = merged['violations'].get(v['key'])
            if cur is None:
                merged['violations'][v['key']] = v
            else:
                cur['n'] += v['n']
                if _size(v['case']) < _size(cur['case']):
                    cur['case'] = v['case']
                    cur['what'] = v['what']
    # samples: round-robin over shards so the evidence shows variety
    pools = [r.get('samples', []) for r in results if r['_status'] == 'ok']
    i = 0
    while len(merged['samples']) < MAX_SAMPLES and any(pools):
        p = pools[i % len(pools)]
        if p:
            merged['samples'].append(p.pop(0))
        i += 1
        if i > 10000:
            break

    class _P(object):
        pass
    pctx = _P()
    pctx.inconclusive = merged['inconclusive']
    pctx.tier = tier
    pctx.seed = seed
    if hasattr(driver, 'finish'):
        driver.finish(pctx, merged)
    if merged['evaluations'] == 0:
        merged['inconclusive'].append('no case was executed')

    return judge(driver, tier, seed, merged, time.time() - t0)


def judge(driver, tier, seed, merged, wall):
    prop = driver.PROP
    findings = load_findings()
    known, new = [], []
    for key in sorted(merged['violations']):
        v = merged['violations'][key]
        f = finding_for(prop, v['sig'], findings)
        (known if f else new).append((v, f))

    rdir = os.path.join(ROOT, 'replays', prop)
    os.makedirs(rdir, exist_ok=True)
    for old in os.listdir(rdir):          # replays describe this run only
        if old.endswith('.json'):
            os.unlink(os.path.join(rdir, old))
    lines = []
    seen_f = {}
    for v, f in known:
        seen_f.setdefault(f['id'], [f, 0, v])
        seen_f[f['id']][1] += v['n']
    for fid, (f, n, v) in sorted(seen_f.items()):
        lines.append('KNOWN-FINDING: property=%s %s [%s; %d occurrence(s) this run; e.g. %s]' % (
            prop, f['what'], fid, n, v['key']))
    rc = 0
    for v, _ in new:
        path = os.path.join('replays', prop, slug(v['key']) + '.json')
        with open(os.path.join(ROOT, path), 'w') as fh:
            json.dump({'property': prop, 'signature': v['key'], 'sig': v['sig'],
                       'what': v['what'], 'case': v['case'], 'seed': seed, 'tier': tier,
                       'occurrences': v['n']}, fh, indent=1, default=repr)
        lines.append('VIOLATION property=%s replay=%s' % (prop, path))
        lines.append('  signature: %s' % v['key'])
        lines.append('  what: %s' % str(v['what'])[:600])
        rc = 1
    if rc == 0 and merged['inconclusive']:
        rc = 2
        for why in merged['inconclusive'][:10]:
            lines.append('INCONCLUSIVE property=%s reason=%s' % (prop, why))

    cov = {
        'evaluations': int(merged['evaluations']),
        'distinct_nontrivial': int(merged.get('distinct_count', len(merged['distinct']))),
        'rule': driver.RULE,
        'samples': merged['samples'] or ['(none)'],
        'classes_seen': len(merged['classes']),
        'counters': {k: merged['counters'][k] for k in sorted(merged['counters'])},
        'shards': merged['shards'],
        'slowest_shards_s': merged.get('shard_walls', []),
        'shards_ok': merged['shards_ok'],
        'known_findings_seen': sorted(seen_f),
        'new_violation_signatures': [v['key'] for v, _ in new],
        'verdict': {0: 'held on what was observed', 1: 'violated', 2: 'inconclusive'}[rc],
        'inconclusive_reasons': merged['inconclusive'],
        'notes': merged['notes'][:30],
    }
    if merged.get('exhaustive') is not None:
        cov['exhaustive'] = bool(merged['exhaustive'])
    if merged.get('extra'):
        cov.update(merged['extra'])
    if len(merged['classes']) <= 400:
        cov['classes'] = sorted(merged['classes'])
    ev = {
        'property_id': prop,
        'tier': tier,
        'seed': int(seed),
        'level': getattr(driver, 'LEVEL', 'exploration'),
        'coverage': cov,
        'assumptions': list(getattr(driver, 'ASSUME', [])),
        'wall_s': round(wall, 2),
        'violations': len(new),
    }
    # evidence/ only ever describes runs against /repo itself; runs aimed at a scratch copy
    # (VERIF_REPO=..., used to validate the monitors on mutants) write elsewhere.
    evdir = os.path.join(ROOT, 'evidence') if os.path.realpath(REPO) == '/repo' else \
        os.path.join(ROOT, '.work', 'evidence_scratch')
    os.makedirs(evdir, exist_ok=True)
    with open(os.path.join(evdir, prop + '.json'), 'w') as fh:
        json.dump(ev, fh, indent=1, default=repr, sort_keys=False)
        fh.write('\n')
    for ln in lines:
        print(ln)
    print('%s %s seed=%d: %s; %d evaluations, %d distinct, %d classes, %d known finding(s), '
          '%d new violation(s), %.1fs' % (
              prop, tier, seed, cov['verdict'], cov['evaluations'], cov['distinct_nontrivial'],
              cov['classes_seen'], len(seen_f), len(new), wall))
    return rc


def run_replay(driver, path):
    """Re-execute one recorded case in a fresh worker and report."""
    ensure_deps()
    with open(path) as f:
        rec = json.load(f)
    workdir = os.path.join(ROOT, '.work', 'replay_%d' % os.getpid())
    os.makedirs(workdir, exist_ok=True)
    spec = {'replay': rec['case']}
    r = _run_one(driver.PROP, rec.get('tier', 'quick'), rec.get('seed', 0), 0, spec, workdir, 600)
    try:
        os.rmdir(workdir)
    except OSError:
        pass
    if r['_status'] != 'ok':
        print('INCONCLUSIVE property=%s reason=replay worker %s' % (driver.PROP, r['_status']))
        sys.stderr.write(r.get('_stderr', ''))
        return 2
    if r['violations']:
        for v in r['violations']:
            print('VIOLATION property=%s replay=%s' % (driver.PROP, path))
            print('  signature: %s' % v['key'])
            print('  what: %s' % str(v['what'])[:1000])
        return 1
    print('replay of %s: no violation reproduced' % path)
    return 0


def worker_main(argv):
    prop, tier, seed, idx, spec_path, out_path = argv
    seed = int(seed)
    idx = int(idx)
    with open(spec_path) as f:
        spec = json.load(f)
    sys.path.insert(0, REPO)
    import importlib
    import warnings
    warnings.simplefilter('ignore')      # hszinc warns once per unknown version string; pyparsing deprecations
    driver = importlib.import_module('vf.props.' + prop.lower())
    ctx = Ctx(prop, tier, seed, idx)
    real_stdout = sys.stdout
    sys.stdout = Sink()
    try:
        if isinstance(spec, dict) and 'replay' in spec:
            driver.replay(spec['replay'], ctx)
            ctx.evaluations = max(ctx.evaluations, 1)
        else:
            driver.run_shard(spec, ctx)
    finally:
        sys.stdout = real_stdout
    res = ctx.result()
    with open(out_path, 'w') as f:
        json.dump(res, f, default=repr)


def shrink_list(items, still_fails, max_runs=400):
    """Greedy one-at-a-time / chunk removal (ddmin-like) keeping `still_fails(items)` true."""
    items = list(items)
    runs = 0
    chunk = max(1, len(items) // 2)
    while chunk >= 1 and runs < max_runs:
        i = 0
        changed = False
        while i < len(items) and runs < max_runs:
            cand = items[:i] + items[i + chunk:]
            runs += 1
            if cand != items and still_fails(cand):
                items = cand
                changed = True
            else:
                i += chunk
        if chunk == 1 and not changed:
            break
        chunk = max(1, chunk // 2) if chunk > 1 else (1 if changed else 0)
    return items
