"""icontract invariants / wrappers attached to the real hszinc classes, and a runner that drives the
repository's own test-suite as an extra workload under them (DESIGN 1.5 (3)).

Conditions record and return True: a raise would abort the execution being observed.  The verdict is
taken from the record; zero evaluations means the monitor was never reached (inconclusive).
"""
import json
import os
import subprocess
import sys
import tempfile

RECORD = {'evals': {}, 'bad': {}}


def _hit(name):
    RECORD['evals'][name] = RECORD['evals'].get(name, 0) + 1


def _bad(name, what):
    RECORD['bad'].setdefault(name, [])
    if len(RECORD['bad'][name]) < 5:
        RECORD['bad'][name].append(what[:300])


def attach(names):
    import icontract
    import hszinc
    from hszinc.sortabledict import SortableDict
    if 'sortabledict' in names:
        def order_is_permutation_of_keys(self):
            _hit('sortabledict')
            try:
                ks = list(self._order)
                if len(set(ks)) != len(ks) or set(ks) != set(self._values.keys()):
                    _bad('sortabledict', 'order %r vs value keys %r' % (ks, sorted(map(repr, self._values.keys()))))
            except AttributeError:
                pass
            return True
        icontract.invariant(order_is_permutation_of_keys)(SortableDict)
    if 'grid-index' in names:
        def index_entries_are_current_rows(self):
            _hit('grid-index')
            try:
                idx = self._index
                if idx:
                    rows = self._row
                    for k, v in idx.items():
                        if not any(v is r for r in rows):
                            _bad('grid-index', 'index key %r points at a row that is not in the grid' % (k,))
                            break
                        if 'id' not in v or str(v['id']) != k:
                            # documented: changing row["id"] in place needs reindex(); only report rows without id
                            if 'id' not in v:
                                _bad('grid-index', 'index key %r points at a row without id' % (k,))
                                break
            except AttributeError:
                pass
            return True
        icontract.invariant(index_entries_are_current_rows)(hszinc.Grid)
    if 'dump-pure' in names:
        from vf import hs
        import hszinc.dumper as dumper
        orig = dumper.dump

        def snap(g):
            try:
                return repr(hs.from_grid(g)) + repr([id(r) for r in g])
            except Exception as e:     # grids the bridge cannot describe are skipped
                return None

        def dump(grids, mode=hszinc.MODE_ZINC):
            gl = [grids] if isinstance(grids, hszinc.Grid) else list(grids)
            before = [snap(g) for g in gl]
            out = orig(grids if isinstance(grids, hszinc.Grid) else gl, mode=mode)
            _hit('dump-pure')
            after = [snap(g) for g in gl]
            if before != after:
                _bad('dump-pure', 'dump(mode=%s) changed its argument' % (mode,))
            try:
                again = orig(grids if isinstance(grids, hszinc.Grid) else gl, mode=mode)
                if again != out:
                    _bad('dump-pure', 'two dumps of one grid differ')
            except Exception:
                pass
            return out
        dumper.dump = dump
        hszinc.dump = dump


# ---- pytest plugin (python -m pytest -p vf.contracts) -------------------------------------------------

def pytest_configure(config):
    names = os.environ.get('VF_CONTRACTS', '').split(',')
    attach([n for n in names if n])


def pytest_sessionfinish(session, exitstatus):
    out = os.environ.get('VF_CONTRACTS_OUT')
    if out:
        with open(out + '.%d' % os.getpid(), 'w') as f:
            json.dump(RECORD, f)


def run_repo_tests(names, repo, timeout=900):
    """Run the repository's test-suite with the named contracts attached. Returns merged RECORD + pytest summary."""
    root = os.path.dirname(os.path.dirname(os.path.abspath(__file__)))
    fd, out = tempfile.mkstemp(prefix='vf_contracts_', dir=os.path.join(root, '.work') if os.path.isdir(os.path.join(root, '.work')) else None)
    os.close(fd)
    env = dict(os.environ, VF_CONTRACTS=','.join(names), VF_CONTRACTS_OUT=out, PYTHONDONTWRITEBYTECODE='1',
               PYTHONPATH=os.pathsep.join([root, repo, os.path.join(root, '.deps')]))
    p = subprocess.run([sys.executable, '-B', '-m', 'pytest', '-q', '-p', 'no:cacheprovider', '-p', 'vf.contracts',
                        '--timeout=600', 'tests'], cwd=repo, env=env, stdin=subprocess.DEVNULL, stdout=subprocess.PIPE,
                       stderr=subprocess.STDOUT, timeout=timeout)
    merged = {'evals': {}, 'bad': {}, 'pytest_tail': p.stdout.decode('utf-8', 'replace').strip().splitlines()[-1:]}
    d = os.path.dirname(out)
    for fn in os.listdir(d):
        if fn.startswith(os.path.basename(out) + '.'):
            path = os.path.join(d, fn)
            try:
                rec = json.load(open(path))
                for k, v in rec['evals'].items():
                    merged['evals'][k] = merged['evals'].get(k, 0) + v
                for k, v in rec['bad'].items():
                    merged['bad'].setdefault(k, []).extend(v)
            finally:
                os.unlink(path)
    os.unlink(out)
    return merged


def repo_tests_shard(ctx, names, prop):
    """Shared shard body: the repository's own test-suite as an extra workload under the named contracts."""
    from vf import contracts, core
    rec = contracts.run_repo_tests(names, core.REPO)
    for n in names:
        ctx.count('contract evaluations during the repository test-suite: ' + n, rec['evals'].get(n, 0))
        ctx.case('repo-tests', n, nontrivial=False)
        if rec['evals'].get(n, 0) == 0:
            ctx.inconc('contract %s was never evaluated while the repository tests ran (%r)' % (n, rec.get('pytest_tail')))
        for what in rec['bad'].get(n, []):
            ctx.violation({'part': 'repo-tests', 'kind': n, 'symptom': 'contract-broken', 'features': []},
                          'while the repository test-suite ran: ' + what, {'contract': n})
    ctx.sample({'repository_tests_under_contracts': names, 'evaluations': rec['evals'], 'pytest': rec.get('pytest_tail')})
