"""Witness minimisation and attribution on N-form grids.

`fails(n)` returns a symptom string (or None).  A case is shrunk while the *same*
symptom persists: rows, metadata and columns are dropped, every value site is
replaced by a sentinel, containers are emptied, text payloads lose characters.
What is left names the one value (kind, position, features) that triggers the
mechanism - the signature vocabulary of DESIGN.md Appendix C.
"""
from vf import domain as D

SENT = ('str', 's')


def sites(n, prefix=()):
    """All value sites of an N-form value, outermost first: [(path, value)]."""
    out = []
    k = n[0]
    if k == 'grid':
        for i, (_, v) in enumerate(n[2]):
            out.append((prefix + (('meta', i),), v))
        for ci, (_, m) in enumerate(n[3]):
            for mi, (_, v) in enumerate(m):
                out.append((prefix + (('col', ci, mi),), v))
        for ri, row in enumerate(n[4]):
            for j, (_, v) in enumerate(row):
                out.append((prefix + (('cell', ri, j),), v))
    elif k == 'list':
        for i, v in enumerate(n[1]):
            out.append((prefix + (('elem', i),), v))
    elif k == 'dict':
        for i, (_, v) in enumerate(n[1]):
            out.append((prefix + (('dval', i),), v))
    deeper = []
    for p, v in out:
        if v[0] in ('grid', 'list', 'dict'):
            deeper += sites(v, p)
    return out + deeper


def get(n, path):
    for step in path:
        t = step[0]
        if t == 'meta':
            n = n[2][step[1]][1]
        elif t == 'col':
            n = n[3][step[1]][1][step[2]][1]
        elif t == 'cell':
            n = n[4][step[1]][step[2]][1]
        elif t == 'elem':
            n = n[1][step[1]]
        elif t == 'dval':
            n = n[1][step[1]][1]
    return n


def put(n, path, new):
    if not path:
        return new
    step, rest = path[0], path[1:]
    t = step[0]
    if t == 'meta':
        i = step[1]
        m = list(n[2])
        m[i] = (m[i][0], put(m[i][1], rest, new))
        return n[:2] + (tuple(m),) + n[3:]
    if t == 'col':
        ci, mi = step[1], step[2]
        cols = list(n[3])
        cm = list(cols[ci][1])
        cm[mi] = (cm[mi][0], put(cm[mi][1], rest, new))
        cols[ci] = (cols[ci][0], tuple(cm))
        return n[:3] + (tuple(cols),) + n[4:]
    if t == 'cell':
        ri, j = step[1], step[2]
        rows = list(n[4])
        row = list(rows[ri])
        row[j] = (row[j][0], put(row[j][1], rest, new))
        rows[ri] = tuple(row)
        return n[:4] + (tuple(rows),)
    if t == 'elem':
        items = list(n[1])
        items[step[1]] = put(items[step[1]], rest, new)
        return ('list', tuple(items))
    if t == 'dval':
        items = list(n[1])
        items[step[1]] = (items[step[1]][0], put(items[step[1]][1], rest, new))
        return ('dict', tuple(items))
    raise AssertionError(step)


def position_of(path):
    """Position vocabulary: grid-meta / col-meta / cell, then > list-elem / dict-value / nested-*."""
    names = {'meta': 'grid-meta', 'col': 'col-meta', 'cell': 'cell', 'elem': 'list-elem', 'dval': 'dict-value'}
    if not path:
        return 'scalar'
    parts = [names[s[0]] for s in path]
    out = parts[0]
    for prev, cur in zip(parts, parts[1:]):
        if cur in ('grid-meta', 'col-meta', 'cell'):
            out = 'nested-' + cur
        else:
            out = cur
    return out


def _drop_structure(n, same):
    """Remove rows, metadata items, column metadata, columns while the symptom stays."""
    budget = [200]

    def attempt(c):
        budget[0] -= 1
        return budget[0] > 0 and same(c)
    changed = True
    while changed and budget[0] > 0:
        changed = False
        _, ver, meta, cols, rows = n
        for i in range(len(rows) - 1, -1, -1):
            c = ('grid', ver, meta, cols, rows[:i] + rows[i + 1:])
            if attempt(c):
                n, changed = c, True
                _, ver, meta, cols, rows = n
        for i in range(len(meta) - 1, -1, -1):
            c = ('grid', ver, meta[:i] + meta[i + 1:], cols, rows)
            if attempt(c):
                n, changed = c, True
                _, ver, meta, cols, rows = n
        for ci in range(len(cols)):
            cm = cols[ci][1]
            for mi in range(len(cm) - 1, -1, -1):
                c = ('grid', ver, meta, cols[:ci] + ((cols[ci][0], cm[:mi] + cm[mi + 1:]),) + cols[ci + 1:], rows)
                if attempt(c):
                    n, changed = c, True
                    _, ver, meta, cols, rows = n
                    cm = cols[ci][1]
        if len(cols) > 1:
            for ci in range(len(cols) - 1, -1, -1):
                if len(cols) <= 1:
                    break
                name = cols[ci][0]
                c = ('grid', ver, meta, cols[:ci] + cols[ci + 1:],
                     tuple(tuple((k, v) for k, v in row if k != name) for row in rows))
                if attempt(c):
                    n, changed = c, True
                    _, ver, meta, cols, rows = n
    return n


def shrink_text(s, same_with, max_runs=200):
    """ddmin over characters of a string payload."""
    runs = [0]
    chars = list(s)
    chunk = max(1, len(chars) // 2)
    while chunk >= 1 and runs[0] < max_runs:
        i = 0
        while i < len(chars) and runs[0] < max_runs:
            cand = chars[:i] + chars[i + chunk:]
            runs[0] += 1
            if same_with(''.join(cand)):
                chars = cand
            else:
                i += chunk
        if chunk == 1:
            break
        chunk //= 2
    return ''.join(chars)


def minimise(n, fails, symptom=None, max_sites=400):
    """n: N-form grid (or any N-form value when top=False). Returns (n_min, culprit_paths)."""
    if symptom is None:
        symptom = fails(n)

    def same(c):
        try:
            return fails(c) == symptom
        except Exception:
            return False
    if n[0] == 'grid':
        n = _drop_structure(n, same)
    # sentinel-ise values, outermost first
    tried = 0
    progress = True
    while progress and tried < max_sites:
        progress = False
        for path, v in sites(n):
            if v == SENT or v == D.NULL and False:
                continue
            tried += 1
            if tried > max_sites:
                break
            c = put(n, path, SENT)
            if c != n and same(c):
                n = c
                progress = True
                break
    culprits = [(p, v) for p, v in sites(n) if v != SENT and v[0] not in ('list', 'dict', 'grid')]
    containers = [(p, v) for p, v in sites(n) if v[0] in ('list', 'dict', 'grid')]
    # containers that are culprits by themselves (e.g. empty list) count when they hold no culprit scalar
    for p, v in containers:
        if not any(cp[:len(p)] == p for cp, _ in culprits):
            culprits.append((p, v))
    # shrink the text payload of a single culprit
    if len(culprits) == 1:
        p, v = culprits[0]
        if v[0] in ('str', 'uri', 'bin') and len(v[1]) > 1:
            s2 = shrink_text(v[1], lambda t: same(put(n, p, (v[0], t))))
            n = put(n, p, (v[0], s2))
        elif v[0] == 'ref' and v[2]:
            s2 = shrink_text(v[2], lambda t: same(put(n, p, ('ref', v[1], t))))
            n = put(n, p, ('ref', v[1], s2))
        elif v[0] == 'xstr' and v[1] not in ('hex', 'b64') and len(v[2]) > 1:
            s2 = shrink_text(v[2], lambda t: same(put(n, p, ('xstr', v[1], t))))
            n = put(n, p, ('xstr', v[1], s2))
        culprits = [(p, get(n, p))]
    return n, culprits


def signature(fmt, part, n_min, culprits, symptom, extra_features=()):
    if len(culprits) == 1:
        p, v = culprits[0]
        pos = position_of(p)
        kind = D.kind(v)
        feats = set(D.features(v))
    elif not culprits:
        pos, kind, feats = 'structure', '-', set()
    else:
        pos = 'multi'
        kind = '+'.join(sorted({D.kind(v) for _, v in culprits}))
        feats = set()
        for _, v in culprits:
            feats |= D.features(v)
    feats |= set(extra_features)
    return {'part': part, 'format': fmt, 'position': pos, 'kind': kind, 'symptom': symptom,
            'features': sorted(feats)}
