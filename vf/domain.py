"""The Haystack value domain in a neutral form ("N-form"), independent of hszinc.

N-form values are plain tuples:

    ('null',) ('marker',) ('remove',) ('na',)
    ('bool', b)
    ('num', v, unit)            v int|float, unit None|str   (unit => Quantity)
    ('str', s) ('uri', s) ('bin', s)
    ('ref', name, dis)          dis None|str
    ('xstr', type, payload)     payload str (canonical text for hex / b64)
    ('date', y, m, d)
    ('time', h, mi, s, us)
    ('dt', (y,mo,d,h,mi,s,us), offset_seconds, zone)   local wall clock; zone None|str
    ('coord', lat, lng)
    ('list', (v, ...))
    ('dict', ((k, v), ...))
    ('grid', ver|None, ((k, v), ...), ((col, ((k, v), ...)), ...), (((col, v), ...), ...))

`hs.py` converts between N-form and hszinc objects; refzinc / refjson / reffilter
work on N-form only and never import hszinc.
"""
import math
import random

NULL = ('null',)
MARKER = ('marker',)
REMOVE = ('remove',)
NA = ('na',)

SCALAR_KINDS_2 = ['null', 'marker', 'remove', 'bool', 'num', 'qty', 'str', 'uri', 'ref',
                  'refdis', 'bin', 'date', 'time', 'dt', 'coord']
ONLY_3 = ['na', 'xstr', 'list', 'dict', 'grid']

TEXT_KINDS = ('str', 'uri', 'bin', 'ref', 'xstr')


def kind(n):
    """Kind tag used in matrices and signatures (Quantity and Ref-with-display split out)."""
    k = n[0]
    if k == 'num':
        return 'qty' if n[2] is not None else 'num'
    if k == 'ref':
        return 'refdis' if n[2] is not None else 'ref'
    return k


def base_kind(n):
    k = n[0]
    if k == 'num' and n[2] is not None:
        return 'qty'
    return k


# ---------------------------------------------------------------------------
# feature analysers (deterministic, observable features only)
# ---------------------------------------------------------------------------

def text_features(s):
    f = set()
    if s == '':
        f.add('empty')
    for ch in s:
        o = ord(ch)
        if o < 0x20:
            if ch in '\n\r':
                f.add('newline')
            elif ch in '\b\f\t':
                f.add('bft')
            else:
                f.add('c0-control')
        elif ch == '"':
            f.add('dquote')
        elif ch == '\\':
            f.add('backslash')
        elif ch == '$':
            f.add('dollar')
        elif ch == '`':
            f.add('backtick')
        elif ch == ':':
            f.add('colon')
        elif ch == ' ':
            f.add('space')
        elif o == 0x7f:
            f.add('del')
        elif 0xd800 <= o <= 0xdfff:
            f.add('surrogate')
        elif o > 0xffff:
            f.add('nonbmp')
        elif o == 0xffff:
            f.add('u+ffff')
        elif o == 0x2028 or o == 0x2029 or o == 0x85:
            f.add('unicode-linesep')
        elif o >= 0x80:
            f.add('nonascii')
    if s[:1] == ' ' or s[-1:] == ' ':
        f.add('edge-space')
    return f


def num_features(v):
    f = set()
    if isinstance(v, float):
        if math.isnan(v):
            f.update(['nonfinite', 'nan'])
        elif math.isinf(v):
            f.update(['nonfinite', 'inf'])
        elif v != 0 and abs(v) < 5e-7:
            f.add('tiny')
        elif abs(v) >= 1e16:
            f.add('huge')
    elif isinstance(v, bool):
        pass
    else:
        if abs(v) >= 10 ** 16:
            f.add('huge')
    return f


def features(n):
    """Feature tags of one N-form scalar (containers: union over the kinds inside)."""
    k = n[0]
    f = set()
    if k == 'num':
        f |= num_features(n[1])
    elif k in ('str', 'uri', 'bin'):
        f |= text_features(n[1])
    elif k == 'ref':
        if n[2] is not None:
            f |= text_features(n[2])
    elif k == 'xstr':
        f |= text_features(n[2])
        f.add('xtype=' + ('hex' if n[1] == 'hex' else 'b64' if n[1] == 'b64' else
                          'lower' if n[1][:1].islower() else 'upper'))
    elif k == 'dt':
        if n[3] is None:
            f.add('no-zone')
        if n[1][6]:
            f.add('usec')
    elif k == 'time':
        if n[4]:
            f.add('usec')
    elif k == 'coord':
        pass
    elif k == 'list':
        if not n[1]:
            f.add('empty')
        for x in n[1]:
            f.add('has=' + kind(x))
    elif k == 'dict':
        if not n[1]:
            f.add('empty')
        for _, x in n[1]:
            f.add('has=' + kind(x))
    elif k == 'grid':
        f.add('nested-grid')
    return f


# ---------------------------------------------------------------------------
# comparator
# ---------------------------------------------------------------------------

def _num_same(a, b, tol):
    if isinstance(a, bool) or isinstance(b, bool):
        return a is b
    fa, fb = float(a), float(b)
    if math.isnan(fa) or math.isnan(fb):
        return math.isnan(fa) and math.isnan(fb)
    if math.isinf(fa) or math.isinf(fb):
        return fa == fb
    if not tol:
        return a == b
    slack = 0.5e-6 + 4 * math.ulp(max(abs(fa), abs(fb), 1.0))
    return abs(fa - fb) <= slack


def zone_eq(a, b):
    if a == b:
        return True
    if a is None or b is None:
        return False
    return a.endswith('/' + b) or b.endswith('/' + a)


def dt_instant(n):
    """Microseconds since 0001-01-01 UTC of an N-form date-time."""
    import datetime
    (y, mo, d, h, mi, s, us), off, _ = n[1], n[2], n[3]
    base = datetime.datetime(y, mo, d, h, mi, s, us) - datetime.datetime(1, 1, 1)
    return (base.days * 86400 + base.seconds - off) * 1000000 + base.microseconds


def diff(a, b, tol=False, path=''):
    """None when a (expected) and b (observed) denote the same value, else
    (path, symptom, detail).  tol => the six-decimal rule for float payloads."""
    ka, kb = a[0], b[0]
    if ka != kb:
        return (path, 'kind-changed:%s>%s' % (kind(a), kind(b)), '%r vs %r' % (a, b))
    k = ka
    if k in ('null', 'marker', 'remove', 'na'):
        return None
    if k == 'bool':
        return None if a[1] is b[1] else (path, 'content-changed', '%r vs %r' % (a, b))
    if k == 'num':
        if (a[2] is None) != (b[2] is None):
            return (path, 'kind-changed:%s>%s' % (kind(a), kind(b)), '%r vs %r' % (a, b))
        if a[2] != b[2]:
            return (path, 'content-changed', 'unit %r vs %r' % (a[2], b[2]))
        if not _num_same(a[1], b[1], tol):
            return (path, 'content-changed', '%r vs %r' % (a[1], b[1]))
        return None
    if k in ('str', 'uri', 'bin'):
        return None if a[1] == b[1] else (path, 'content-changed', '%r vs %r' % (a[1], b[1]))
    if k == 'ref':
        if a[1] != b[1]:
            return (path, 'content-changed', 'ref name %r vs %r' % (a[1], b[1]))
        if (a[2] is None) != (b[2] is None):
            return (path, 'kind-changed:%s>%s' % (kind(a), kind(b)), '%r vs %r' % (a, b))
        if a[2] != b[2]:
            return (path, 'content-changed', 'ref display %r vs %r' % (a[2], b[2]))
        return None
    if k == 'xstr':
        if a[1] != b[1]:
            return (path, 'content-changed', 'xstr type %r vs %r' % (a[1], b[1]))
        if a[2] != b[2]:
            return (path, 'content-changed', 'xstr payload %r vs %r' % (a[2], b[2]))
        return None
    if k in ('date', 'time'):
        return None if a[1:] == b[1:] else (path, 'content-changed', '%r vs %r' % (a, b))
    if k == 'dt':
        if dt_instant(a) != dt_instant(b):
            return (path, 'content-changed', 'instant %r vs %r' % (a, b))
        if a[2] != b[2]:
            return (path, 'content-changed', 'utc offset %r vs %r' % (a, b))
        if a[3] is not None and not zone_eq(a[3], b[3]):
            return (path, 'content-changed', 'zone %r vs %r' % (a[3], b[3]))
        return None
    if k == 'coord':
        if _num_same(a[1], b[1], True) and _num_same(a[2], b[2], True):
            return None
        return (path, 'content-changed', '%r vs %r' % (a, b))
    if k == 'list':
        if len(a[1]) != len(b[1]):
            return (path, 'shape-changed', 'list length %d vs %d' % (len(a[1]), len(b[1])))
        for i, (x, y) in enumerate(zip(a[1], b[1])):
            d = diff(x, y, tol, '%s[%d]' % (path, i))
            if d:
                return d
        return None
    if k == 'dict':
        da, db = dict(a[1]), dict(b[1])
        if set(da) != set(db):
            return (path, 'shape-changed', 'dict keys %r vs %r' % (sorted(da), sorted(db)))
        for key in da:
            d = diff(da[key], db[key], tol, '%s{%s}' % (path, key))
            if d:
                return d
        return None
    if k == 'grid':
        return grid_diff(a, b, tol, path)
    raise AssertionError('unknown kind %r' % (k,))


def ver_key(v):
    """Reference reading of a version string: numeric groups without trailing zeros + suffix ('2' == '2.0' == '2.00')."""
    import re
    m = re.match(r'^(\d+(?:\.\d+)*)(.*)$', v or '', re.S)
    if not m:
        return (None, v)
    nums = [int(x) for x in m.group(1).split('.')]
    while nums and nums[-1] == 0:
        nums.pop()
    return (tuple(nums), m.group(2) or None)


def grid_diff(a, b, tol=False, path=''):
    _, va, ma, ca, ra = a
    _, vb, mb, cb, rb = b
    if va is not None and va != vb and ver_key(va) != ver_key(vb):
        return (path + '.ver', 'content-changed', 'version %r vs %r' % (va, vb))
    if [k for k, _ in ma] != [k for k, _ in mb]:
        return (path + '.meta', 'shape-changed', 'metadata keys %r vs %r' % (
            [k for k, _ in ma], [k for k, _ in mb]))
    for (k, x), (_, y) in zip(ma, mb):
        d = diff(x, y, tol, '%s.meta[%s]' % (path, k))
        if d:
            return d
    if [c for c, _ in ca] != [c for c, _ in cb]:
        return (path + '.cols', 'shape-changed', 'columns %r vs %r' % (
            [c for c, _ in ca], [c for c, _ in cb]))
    for (c, xm), (_, ym) in zip(ca, cb):
        if [k for k, _ in xm] != [k for k, _ in ym]:
            return ('%s.col[%s]' % (path, c), 'shape-changed', 'column metadata keys %r vs %r' % (
                [k for k, _ in xm], [k for k, _ in ym]))
        for (k, x), (_, y) in zip(xm, ym):
            d = diff(x, y, tol, '%s.col[%s][%s]' % (path, c, k))
            if d:
                return d
    if len(ra) != len(rb):
        return (path + '.rows', 'shape-changed', 'row count %d vs %d' % (len(ra), len(rb)))
    names = [c for c, _ in ca]
    for i, (x, y) in enumerate(zip(ra, rb)):
        dx, dy = dict(x), dict(y)
        extra = set(dy) - set(names)
        if extra:
            return ('%s.row[%d]' % (path, i), 'shape-changed', 'unexpected keys %r' % sorted(extra))
        for c in names:
            d = diff(dx.get(c, NULL), dy.get(c, NULL), tol, '%s.row[%d][%s]' % (path, i, c))
            if d:
                return d
    return None


def position_of(path):
    """Map a diff path to the position vocabulary of DESIGN 2.1."""
    nested = path.count('.row[') + path.count('.meta[') + path.count('.col[') > 1
    first = path
    if '.meta' in first and first.index('.meta') == 0:
        pos = 'grid-meta'
    elif first.startswith('.col['):
        pos = 'col-meta'
    elif first.startswith('.cols'):
        pos = 'columns'
    elif first.startswith('.rows'):
        pos = 'rows'
    elif first.startswith('.row['):
        pos = 'cell'
    elif first.startswith('.ver'):
        pos = 'version'
    else:
        pos = 'scalar'
    rest = path
    if nested:
        pos += '>nested-grid'
    elif '[' in rest.split(']', 2)[-1] if rest.count(']') >= 2 else False:
        pos += '>list'
    elif '{' in rest:
        pos += '>dict'
    return pos


def at_path(n, path):
    """Best effort: fetch the N-form value a diff path points at (for feature tags)."""
    import re
    cur = n
    toks = re.findall(r'\.meta\[(\w+)\]|\.col\[(\w+)\]\[(\w+)\]|\.row\[(\d+)\]\[(\w+)\]|\[(\d+)\]|\{(\w+)\}', path)
    try:
        for mk, cc, ck, ri, rc, li, dk in toks:
            if mk:
                cur = dict(cur[2])[mk]
            elif cc:
                cur = dict(dict(cur[3])[cc])[ck]
            elif ri:
                cur = dict(cur[4][int(ri)]).get(rc, NULL)
            elif li:
                cur = cur[1][int(li)]
            elif dk:
                cur = dict(cur[1])[dk]
        return cur
    except Exception:
        return None


def walk(n, pos='scalar'):
    """Yield (position, value) for every scalar/container inside an N-form value."""
    yield pos, n
    k = n[0]
    if k == 'list':
        for x in n[1]:
            for r in walk(x, 'list-elem'):
                yield r
    elif k == 'dict':
        for _, x in n[1]:
            for r in walk(x, 'dict-value'):
                yield r
    elif k == 'grid':
        inner = pos != 'top'
        for _, x in n[2]:
            for r in walk(x, 'nested-meta' if inner else 'grid-meta'):
                yield r
        for _, m in n[3]:
            for _, x in m:
                for r in walk(x, 'nested-col-meta' if inner else 'col-meta'):
                    yield r
        for row in n[4]:
            for _, x in row:
                for r in walk(x, 'nested-cell' if inner else 'cell'):
                    yield r


def needs_v3(n):
    for _, x in walk(n, 'top'):
        if x[0] in ('na', 'xstr', 'list', 'dict'):
            return True
        if x[0] == 'grid' and x is not n:
            return True
    return False


# ---------------------------------------------------------------------------
# JSON-able encoding of N-form (for replay files and evidence samples)
# ---------------------------------------------------------------------------

def enc(n):
    k = n[0]
    if k == 'num':
        v = n[1]
        if isinstance(v, float) and (math.isnan(v) or math.isinf(v)):
            v = {'f': repr(v)}
        elif isinstance(v, float):
            v = {'f': repr(v)}
        return ['num', v, n[2]]
    if k in ('str', 'uri', 'bin'):
        return [k, _enc_s(n[1])]
    if k == 'ref':
        return ['ref', n[1], None if n[2] is None else _enc_s(n[2])]
    if k == 'xstr':
        return ['xstr', n[1], _enc_s(n[2])]
    if k == 'coord':
        return ['coord', repr(n[1]), repr(n[2])]
    if k == 'dt':
        return ['dt', list(n[1]), n[2], n[3]]
    if k == 'list':
        return ['list', [enc(x) for x in n[1]]]
    if k == 'dict':
        return ['dict', [[kk, enc(x)] for kk, x in n[1]]]
    if k == 'grid':
        return ['grid', n[1], [[kk, enc(x)] for kk, x in n[2]],
                [[c, [[kk, enc(x)] for kk, x in m]] for c, m in n[3]],
                [[[c, enc(x)] for c, x in row] for row in n[4]]]
    return list(n)


def _enc_s(s):
    # JSON cannot carry lone surrogates portably: escape them explicitly.
    if any(0xd800 <= ord(c) <= 0xdfff for c in s):
        return {'cp': [ord(c) for c in s]}
    return s


def _dec_s(s):
    if isinstance(s, dict):
        return ''.join(chr(c) for c in s['cp'])
    return s


def dec(j):
    k = j[0]
    if k == 'num':
        v = j[1]
        if isinstance(v, dict):
            v = float(v['f'])
        return ('num', v, j[2])
    if k in ('str', 'uri', 'bin'):
        return (k, _dec_s(j[1]))
    if k == 'ref':
        return ('ref', j[1], None if j[2] is None else _dec_s(j[2]))
    if k == 'xstr':
        return ('xstr', j[1], _dec_s(j[2]))
    if k == 'coord':
        return ('coord', float(j[1]), float(j[2]))
    if k == 'dt':
        return ('dt', tuple(j[1]), j[2], j[3])
    if k == 'list':
        return ('list', tuple(dec(x) for x in j[1]))
    if k == 'dict':
        return ('dict', tuple((kk, dec(x)) for kk, x in j[1]))
    if k == 'grid':
        return ('grid', j[1], tuple((kk, dec(x)) for kk, x in j[2]),
                tuple((c, tuple((kk, dec(x)) for kk, x in m)) for c, m in j[3]),
                tuple(tuple((c, dec(x)) for c, x in row) for row in j[4]))
    return tuple(j)


# ---------------------------------------------------------------------------
# catalogue and generators
# ---------------------------------------------------------------------------

FLOATS = [0.0, -0.0, 1.0, -1.0, 0.1, -0.1, 0.5, 1.0 / 3, 2.5, 100.0, 1234.5678, 123456.789,
          0.30000000000000004, 1e-4, 1e-5, 1e-6, 1e-7, 1.5e-10, 5e-324, 2.2250738585072014e-308,
          1e15, 1e16, 1e17, 123456789012345680.0, 1e21, 1e22, 1e23, 1.7976931348623157e308,
          float(2 ** 53), float(2 ** 53 - 1), -1e22, -1e-7, 9007199254740993.0, 0.000001,
          99999.999999, 1e100, 3.141592653589793]
INTS = [0, 1, -1, 7, 10, 255, 1000, 10 ** 6, 10 ** 15, 2 ** 31, 2 ** 53, -(2 ** 53), 2 ** 53 - 1]
NONFINITE = [float('inf'), float('-inf'), float('nan')]

UNITS = ['kg', 'm', '%', '$', 'kW', 'm/s', '_x'[1:], 'kWh/m', 'A_b', u'\u00b0C', u'\u00b5m',
         u'\u03a9', u'm\u00b2', u'\u20ac', u'\ufffd', u'\ufffe', 'E', 'e', 'INF', 'N', 'Z', 'T',
         'x_y', 'a%b', 'US$', u'\u0080']

STR_CORE = ['', 'a', 'abc', 'hello world', ' ', '  a  ', 'a,b', '"', '\\', '$', '`', 'a"b\\c$d`e',
            '\n', '\r', '\r\n', '\t', '\b', '\f', 'line1\nline2', '\\n', '\\u0041', '\\"', '\\\\',
            '$name', '${x}', u'\u00e9', u'\u00fc\u00df', u'\u0080', u'\u00ff', u'\u0100', u'\u20ac',
            u'\u2028', u'\u2029', u'\u0085', u'\ufffe', u'\uffff', u'\U00010000', u'\U0001f600',
            u'\U0010ffff', '\x00', '\x01', '\x1f', '\x7f', 'a\x00b', 'N', 'NA', 'M', 'R', 'T', 'F',
            'NaN', 'INF', '-INF', '1', '1.5kg', '@ref', 'Bin(x)', 'C(1,2)', '2020-01-01', '[1,2]',
            '{a:1}', '<<', '>>', 'ver:"3.0"', ',', ',,', ':', 'n:1', 's:x', 'm:', 'x:', '-:', 'z:',
            'r:a b', 'u:x', 'b:x', 'd:2020-01-01', 'h:12:00', 't:2020-01-01T00:00:00Z UTC',
            'c:1,2', 'x:hex:00', '\n\n', '\n\nver:"3.0"\nx\n', 'a\nb\n', ' \n ', '",N', '`,`',
            'caf\u00e9 \U0001f600 "quoted" \\ $ ` \n end']

URI_CORE = ['http://example.com/', 'http://a.b/c?d=e&f=g#h', 'a b', '`', '\\', '\\#', '#', '$',
            '"', 'a`b', 'a\\b', 'x:y', u'http://\u00e9.example/\u20ac', u'\U0001f600', '\t',
            'u', '[::1]', 'a@b;c=d', 'mailto:a@b', '\\:', '\\/', 'a\\\\b', ' ', 'u:x', 'b:x', ':']
URI_CTRL = ['\n', 'a\nb', '\r', '\x00', '\x1f', '\b', '\f']

REF_NAMES = ['a', 'abc', 'A', '0', 'a-b', 'a.b', 'a:b', 'a~b', 'a_b', 'p:demo:r:1e85e02f-9aae7cd6',
             '1234', 'N', 'NA', 'T', '-', '.', ':', '~', '_', 'x' * 40]
REF_DIS = ['', 'a', 'Display Name', 'a"b', 'a\\b', 'a\nb', ' lead', 'trail ', 'a  b', '$x', u'\u00e9',
           u'\U0001f600', ':', 'a:b', '@x', '\t', '\x01', 'with `tick`']

BIN_MIMES = ['text/plain', 'image/png', 'application/octet-stream', 'text/plain; charset=utf-8',
             'a', 'x-y/z+w', 'text/"q"', "it's", 'a b', 'a,b', 'a:b', '$', '\\', '~', ' ']

XSTR_TYPES = ['Type', 'Foo', 'Color', 'T', 'X1', 'My_Type', 'Span', 'Binary']
XSTR_LOWER_TYPES = ['type', 'a', 'foo_1']
XSTR_PAYLOADS = ['', 'a', 'payload', 'a b', 'a:b', 'a"b', 'a\\b', 'a\nb', '$x', u'\u00e9', u'\U0001f600',
                 '\x01', 'a)b', 'a(b', '"', '\\', ':', '::', 'x:y:z', '\r', '\t', "'", 'a`b',
                 '")', '");x("']
HEX_PAYLOADS = ['', '00', 'deadbeef', 'ff' * 8, '0123456789abcdef']
B64_PAYLOADS = ['', 'AA==', 'AQI=', '3q2+7w==', 'aGVsbG8gd29ybGQ=', '////', '++++']

DATES = [(1, 1, 1), (1, 12, 31), (999, 6, 15), (1000, 1, 1), (1899, 12, 31), (1900, 1, 1),
         (1969, 12, 31), (1970, 1, 1), (2000, 2, 29), (2020, 1, 1), (2038, 1, 19), (2100, 2, 28),
         (9999, 12, 31), (2021, 10, 31), (1582, 10, 4)]
TIMES = [(0, 0, 0, 0), (23, 59, 59, 999999), (12, 0, 0, 0), (12, 34, 56, 0), (12, 34, 56, 1),
         (12, 34, 56, 100000), (12, 34, 56, 120000), (12, 34, 56, 123000), (12, 34, 56, 123400),
         (12, 34, 56, 123450), (12, 34, 56, 123456), (0, 0, 0, 1), (1, 2, 3, 999999), (23, 0, 0, 0),
         (0, 59, 0, 0), (9, 9, 9, 90000)]
COORDS = [(0.0, 0.0), (90.0, 180.0), (-90.0, -180.0), (37.545, -77.449), (-27.4725, 153.003),
          (0.000001, -0.000001), (1e-7, 1e-7), (89.9999995, 179.9999995), (12.3456789, 98.7654321),
          (-0.5, 0.5), (45.0, -0.0), (1.0, 2.0), (5e-7, -5e-7), (0.1234565, 0.1234575)]

# (zone, local wall clock, offset seconds)
DTS = [
    ('UTC', (2020, 1, 1, 0, 0, 0, 0), 0),
    ('UTC', (1970, 1, 1, 0, 0, 0, 0), 0),
    ('UTC', (2038, 1, 19, 3, 14, 8, 1), 0),
    ('Brisbane', (2016, 1, 13, 7, 51, 42, 12345), 36000),
    ('Brisbane', (2020, 6, 1, 12, 0, 0, 0), 36000),
    ('New_York', (2021, 11, 7, 1, 30, 0, 0), -14400),   # ambiguous, first pass
    ('New_York', (2021, 11, 7, 1, 30, 0, 0), -18000),   # ambiguous, second pass
    ('New_York', (2021, 3, 14, 3, 0, 0, 0), -14400),
    ('New_York', (2021, 3, 14, 1, 59, 59, 999999), -18000),
    ('London', (2021, 10, 31, 1, 30, 0, 500000), 3600),
    ('London', (2021, 10, 31, 1, 30, 0, 500000), 0),
    ('Kolkata', (2020, 5, 5, 5, 5, 5, 0), 19800),
    ('Kathmandu', (2020, 5, 5, 5, 5, 5, 50), 20700),
    ('Chatham', (2021, 4, 4, 3, 0, 0, 0), 45900),
    ('Lord_Howe', (2021, 4, 4, 1, 45, 0, 0), 37800),
    ('St_Johns', (2020, 7, 1, 0, 0, 0, 0), -9000),
    ('Apia', (2011, 12, 31, 0, 0, 0, 0), 50400),
    ('Kiritimati', (2020, 1, 1, 0, 0, 0, 0), 50400),
    ('GMT+5', (2020, 1, 1, 0, 0, 0, 0), -18000),
    ('GMT-14', (2020, 1, 1, 0, 0, 0, 0), 50400),
    ('GMT', (2020, 1, 1, 0, 0, 0, 0), 0),
    ('Sydney', (1999, 12, 31, 23, 59, 59, 0), 39600),
    ('Los_Angeles', (1985, 4, 12, 23, 20, 50, 520000), -28800),
    ('Paris', (2022, 3, 27, 3, 0, 0, 0), 7200),
    ('Tokyo', (1950, 6, 1, 0, 0, 0, 0), 36000),
]

NAMES = ['a', 'b', 'c', 'id', 'dis', 'val', 'siteRef', 'curVal', 'x1', 'a_b', 'tz', 'unit', 'navName',
         'zzz', 'point', 'his', 'kind', 'n', 'm', 't', 'f', 'na', 'r', 'e5', 'inf', 'nan', 'camelCaseTag',
         'z9_', 'col0', 'col1', 'col2', 'col3', 'mod', 'ts', 'v0', 'v1', 'v2', 'equip', 'site', 'geoCoord']
# names that are structural somewhere in one of the two formats; they are ordinary tag names everywhere else
STRUCTURAL_NAMES = ['ver', 'name', 'meta', 'cols', 'rows']
# the only places where a format cannot carry them: a grid-level tag 'ver' (JSON: the version key; ZINC: the version
# token) and a column-level tag 'name' (JSON: the column's name key); and a dict with all of meta/cols/rows *is* the
# JSON spelling of a grid
FORBID_GRID_META = ('ver',)
FORBID_COL_META = ('name',)


def catalogue(which='full'):
    """Boundary catalogue: list of N-form scalars (no containers)."""
    out = [NULL, MARKER, REMOVE, NA, ('bool', True), ('bool', False)]
    fl = FLOATS if which == 'full' else FLOATS[:20]
    for v in fl:
        out.append(('num', v, None))
    for v in INTS:
        out.append(('num', v, None))
    for v in NONFINITE:
        out.append(('num', v, None))
    units = UNITS if which == 'full' else UNITS[:10]
    for i, u in enumerate(units):
        out.append(('num', fl[(i * 3) % len(fl)], u))
        out.append(('num', INTS[i % len(INTS)], u))
    for u in ('kg', u'\u00b0C'):
        for v in (0.0, -1.5, 1e-7, 1e16, 1e22, 5e-324, 1.7976931348623157e308, 2 ** 53):
            out.append(('num', v, u))
    for s in STR_CORE:
        out.append(('str', s))
    for s in URI_CORE + URI_CTRL:
        out.append(('uri', s))
    for s in REF_NAMES:
        out.append(('ref', s, None))
    for i, d in enumerate(REF_DIS):
        out.append(('ref', REF_NAMES[i % len(REF_NAMES)], d))
    for s in BIN_MIMES:
        out.append(('bin', s))
    for i, p in enumerate(XSTR_PAYLOADS):
        out.append(('xstr', XSTR_TYPES[i % len(XSTR_TYPES)], p))
    for t in XSTR_LOWER_TYPES:
        out.append(('xstr', t, 'payload'))
    for p in HEX_PAYLOADS:
        out.append(('xstr', 'hex', p))
    for p in B64_PAYLOADS:
        out.append(('xstr', 'b64', p))
    for d in DATES:
        out.append(('date',) + d)
    for t in TIMES:
        out.append(('time',) + t)
    for z, loc, off in DTS:
        out.append(('dt', loc, off, z))
    for c in COORDS:
        out.append(('coord',) + c)
    return out


_ALPHA = 'abcdefghijklmnopqrstuvwxyz'
_META = ['"', '\\', '$', '`', ',', '\n', '\r', '\t', '\b', '\f', ' ', ':', '@', '<', '>', '[', ']',
         '{', '}', '(', ')', 'N', 'u', '0', '\x00', '\x1f', '\x7f', u'\u0080', u'\u0085', u'\u00e9',
         u'\u2028', u'\uffff', u'\U0001f600']


class Gen(object):
    """Seeded random generator over the Haystack value domain."""

    def __init__(self, rng, zones=None, allow=None):
        self.r = rng
        self.zones = zones or ['UTC', 'Brisbane', 'New_York', 'London', 'Kolkata', 'Chatham']
        # kinds excluded because the unchanged tree has a recorded finding would hide
        # nothing: exclusions are never used for that.  `allow` only narrows workloads.
        self.allow = allow

    # -- text ----------------------------------------------------------
    def text(self, maxlen=12, controls=True, surrogates=False):
        r = self.r
        mode = r.random()
        if mode < 0.1:
            return ''
        n = r.randint(1, maxlen)
        out = []
        for _ in range(n):
            m = r.random()
            if m < 0.45:
                out.append(r.choice(_ALPHA + ' 0123456789'))
            elif m < 0.75:
                c = r.choice(_META)
                if not controls and ord(c) < 0x20:
                    c = '_'
                out.append(c)
            elif m < 0.85:
                out.append(chr(r.randint(0x20, 0x7e)))
            elif m < 0.93:
                c = r.randint(0x80, 0xffff)
                if 0xd800 <= c <= 0xdfff and not surrogates:
                    c = 0xe000
                out.append(chr(c))
            elif m < 0.97:
                out.append(chr(r.randint(0x10000, 0x10ffff)))
            else:
                c = r.randint(0, 0x1f) if controls else 0x21
                out.append(chr(c))
        return ''.join(out)

    def ident(self):
        r = self.r
        if r.random() < 0.12:
            return r.choice(STRUCTURAL_NAMES)
        if r.random() < 0.7:
            return r.choice(NAMES)
        n = r.randint(1, 8)
        return r.choice(_ALPHA) + ''.join(
            r.choice(_ALPHA + 'ABCXYZ0123456789_') for _ in range(n - 1))

    def names(self, n, forbid=(), taken=()):
        out = []
        while len(out) < n:
            x = self.ident()
            if x not in out and x not in forbid and x not in taken:
                out.append(x)
        return out

    # -- scalars -------------------------------------------------------
    def number(self):
        r = self.r
        m = r.random()
        if m < 0.25:
            return r.choice(FLOATS)
        if m < 0.4:
            return r.choice(INTS)
        if m < 0.45:
            return r.choice(NONFINITE)
        if m < 0.6:
            return r.randint(-10 ** 6, 10 ** 6)
        if m < 0.8:
            return r.uniform(-1000, 1000)
        if m < 0.9:
            return r.uniform(-1, 1) * 10 ** r.randint(-12, 20)
        import struct
        while True:
            v = struct.unpack('<d', struct.pack('<Q', r.getrandbits(64)))[0]
            if not (math.isnan(v) or math.isinf(v)):
                return v

    def finite(self):
        while True:
            v = self.number()
            if not isinstance(v, float) or not (math.isnan(v) or math.isinf(v)):
                return v

    def unit(self):
        r = self.r
        if r.random() < 0.6:
            return r.choice(UNITS)
        n = r.randint(1, 4)
        alphabet = 'abcdefghijklmnopqrstuvwxyzABCDEFGHIJKLMNOPQRSTUVWXYZ%/$_'
        s = ''
        for i in range(n):
            if r.random() < 0.2:
                c = r.randint(0x80, 0xfffe)
                if 0xd800 <= c <= 0xdfff:
                    c = 0xb0
                s += chr(c)
            else:
                s += r.choice(alphabet)
        if s[0] == '_':
            s = 'u' + s
        return s

    def ref_name(self):
        r = self.r
        if r.random() < 0.5:
            return r.choice(REF_NAMES)
        return ''.join(r.choice(_ALPHA + 'ABC0123456789_:-.~') for _ in range(r.randint(1, 12)))

    def date(self):
        r = self.r
        if r.random() < 0.3:
            return ('date',) + r.choice(DATES)
        import datetime
        d = datetime.date.fromordinal(r.randint(1, datetime.date.max.toordinal()))
        return ('date', d.year, d.month, d.day)

    def time(self):
        r = self.r
        if r.random() < 0.3:
            return ('time',) + r.choice(TIMES)
        us = r.choice([0, 0, r.randint(0, 999999), r.randint(0, 999) * 1000, r.randint(0, 9) * 100000])
        return ('time', r.randint(0, 23), r.randint(0, 59), r.randint(0, 59), us)

    zoneless = 0.0   # probability of dropping the zone name (reader-side workloads only)

    def dt(self):
        """Date-time built from a real instant (pytz is the calendar); zone-carrying unless zoneless."""
        n = self._dt()
        if self.zoneless and self.r.random() < self.zoneless:
            return ('dt', n[1], n[2], None)
        return n

    def _dt(self):
        import datetime
        import pytz
        from vf import tzref
        r = self.r
        if r.random() < 0.35:
            z, loc, off = r.choice(DTS)
            return ('dt', loc, off, z)
        z = r.choice(self.zones)
        tz = pytz.timezone(tzref.full_name(z))
        t = datetime.datetime(1970, 1, 1, tzinfo=pytz.utc) + datetime.timedelta(
            seconds=r.randint(-2 * 10 ** 9, 4 * 10 ** 9),
            microseconds=r.choice([0, 0, r.randint(0, 999999)]))
        loc = t.astimezone(tz)
        off = loc.utcoffset()
        if (off.days * 86400 + off.seconds) % 60:
            # local-mean-time era: the formats' hh:mm offset cannot express it (DESIGN 2.1)
            return self._dt()
        return ('dt', (loc.year, loc.month, loc.day, loc.hour, loc.minute, loc.second, loc.microsecond),
                off.days * 86400 + off.seconds, z)

    def coord(self):
        r = self.r
        if r.random() < 0.3:
            return ('coord',) + r.choice(COORDS)
        return ('coord', round(r.uniform(-90, 90), r.randint(0, 9)), round(r.uniform(-180, 180), r.randint(0, 9)))

    def xstr(self):
        r = self.r
        m = r.random()
        if m < 0.15:
            return ('xstr', 'hex', r.choice(HEX_PAYLOADS) if r.random() < 0.5 else
                    ''.join(r.choice('0123456789abcdef') for _ in range(2 * r.randint(0, 6))))
        if m < 0.3:
            import base64
            raw = bytes(r.getrandbits(8) for _ in range(r.randint(0, 9)))
            return ('xstr', 'b64', base64.b64encode(raw).decode('ascii'))
        t = r.choice(XSTR_TYPES)
        p = r.choice(XSTR_PAYLOADS) if r.random() < 0.5 else self.text(10)
        return ('xstr', t, p)

    def scalar(self, k):
        r = self.r
        if k == 'null':
            return NULL
        if k == 'marker':
            return MARKER
        if k == 'remove':
            return REMOVE
        if k == 'na':
            return NA
        if k == 'bool':
            return ('bool', r.random() < 0.5)
        if k == 'num':
            return ('num', self.number(), None)
        if k == 'qty':
            return ('num', self.finite(), self.unit())
        if k == 'str':
            return ('str', r.choice(STR_CORE) if r.random() < 0.4 else self.text(16))
        if k == 'uri':
            if r.random() < 0.4:
                return ('uri', r.choice(URI_CORE))
            return ('uri', self.text(12, controls=r.random() < 0.15) or 'u')
        if k == 'ref':
            return ('ref', self.ref_name(), None)
        if k == 'refdis':
            return ('ref', self.ref_name(), r.choice(REF_DIS) if r.random() < 0.5 else self.text(10))
        if k == 'bin':
            if r.random() < 0.6:
                return ('bin', r.choice(BIN_MIMES))
            return ('bin', ''.join(chr(r.choice(list(range(0x20, 0x28)) + list(range(0x2a, 0x7f))))
                                   for _ in range(r.randint(1, 12))))
        if k == 'xstr':
            return self.xstr()
        if k == 'date':
            return self.date()
        if k == 'time':
            return self.time()
        if k == 'dt':
            return self.dt()
        if k == 'coord':
            return self.coord()
        raise AssertionError(k)

    def value(self, v3, depth=0, kinds=None):
        r = self.r
        pool = list(SCALAR_KINDS_2)
        if v3:
            pool += ['na', 'xstr']
            if depth < 3:
                pool += ['list', 'dict'] * 2 + ['grid']
        if kinds:
            pool = [k for k in pool if k in kinds] or pool
        k = r.choice(pool)
        if k == 'list':
            n = r.choice([0, 1, 1, 2, 3, 4])
            return ('list', tuple(self.value(True, depth + 1) for _ in range(n)))
        if k == 'dict':
            n = r.choice([0, 1, 1, 2, 3])
            keys = self.names(n)
            if {'meta', 'cols', 'rows'} <= set(keys):
                keys.remove('rows')          # that key set is how JSON spells a nested grid
            return ('dict', tuple((kk, self.value(True, depth + 1)) for kk in keys))
        if k == 'grid':
            # a nested grid has a version of its own: that of the document, a lower one, or left to the Grid to detect
            return self.grid(r.choice(['3.0', '3.0', '2.0', None]), depth + 1, small=True)
        return self.scalar(k)

    def grid(self, ver, depth=0, small=False, maxcols=5, maxrows=8):
        """ver: '2.0' | '3.0' | None (defaulted)."""
        r = self.r
        v3 = (ver is not None and ver[:1] not in ('1', '2')) or (ver is None and r.random() < 0.5)
        ncols = r.randint(1, 2 if small else maxcols)
        nrows = r.randint(0, 2 if small else maxrows)
        nmeta = r.choice([0, 0, 1, 2, 3]) if not small else r.choice([0, 1])
        cols = self.names(ncols)
        meta = tuple((k, self.value(v3, depth)) for k in self.names(nmeta, FORBID_GRID_META))
        colsm = []
        for c in cols:
            nm = r.choice([0, 0, 0, 1, 2]) if not small else r.choice([0, 0, 1])
            ks = self.names(nm, FORBID_COL_META)
            colsm.append((c, tuple((k, self.value(v3, depth)) for k in ks)))
        rows = []
        for _ in range(nrows):
            row = []
            for c in cols:
                if r.random() < 0.12:
                    continue   # absent
                row.append((c, self.value(v3, depth)))
            rows.append(tuple(row))
        return ('grid', ver, meta, tuple(colsm), tuple(rows))


def sentinel_grid(n, pos, ver):
    """A 3-column grid carrying value n alone in position pos."""
    L, R = ('str', 'L'), ('num', 7, None)
    if pos == 'cell':
        return ('grid', ver, (), (('a', ()), ('b', ()), ('c', ())),
                ((('a', L), ('b', n), ('c', R)), (('a', L), ('b', NULL), ('c', R))))
    if pos == 'grid-meta':
        return ('grid', ver, (('m0', L), ('mv', n), ('m2', R)), (('a', ()),), ((('a', L),),))
    if pos == 'col-meta':
        return ('grid', ver, (), (('a', (('c0', L), ('cv', n), ('c2', R))), ('b', ())),
                ((('a', L), ('b', R)),))
    if pos == 'list-elem':
        return sentinel_grid(('list', (L, n, R)), 'cell', ver)
    if pos == 'dict-value':
        return sentinel_grid(('dict', (('k0', L), ('kv', n), ('k2', R))), 'cell', ver)
    if pos == 'nested-cell':
        return sentinel_grid(sentinel_grid(n, 'cell', '3.0'), 'cell', ver)
    if pos == 'nested-meta':
        return sentinel_grid(sentinel_grid(n, 'grid-meta', '3.0'), 'cell', ver)
    raise AssertionError(pos)


POSITIONS_2 = ['cell', 'grid-meta', 'col-meta']
POSITIONS_3 = POSITIONS_2 + ['list-elem', 'dict-value', 'nested-cell', 'nested-meta']
