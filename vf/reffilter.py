"""Independent reference for Haystack filters: AST, text renderer, three-valued evaluator.

AST (plain tuples):
    ('has', path) ('not', path) ('cmp', op, path, literal) ('and', [t, ...]) ('or', [t, ...])
    path = [name, ...]; literal = N-form scalar (vf.domain).
Row values are N-form too; a row is a dict name -> N-form (absent = key missing).
The evaluator answers True / False / None (None = the semantics are not specified firmly enough
to judge, the row is then left out of the comparison).  Never imports hszinc.
"""
from vf import domain as D
from vf.refzinc import Writer

ABSENT = ('absent',)
OPS = ['==', '!=', '<', '<=', '>', '>=']
ORDERABLE = ('num', 'qty', 'str', 'date', 'time', 'dt')


# ---------------------------------------------------------------------------
# rendering
# ---------------------------------------------------------------------------

class Renderer(object):
    def __init__(self, rng=None):
        self.r = rng
        self.w = Writer(None)

    def lit(self, n):
        k = n[0]
        if k == 'bool':
            return 'true' if n[1] else 'false'
        if k == 'bin':
            return 'Bin(%s)' % n[1]       # the filter grammar spells a Bin literal the 2.0 way
        if k == 'dt':
            # filter grammar: ISO stamp then an optional zone name
            return self.w.datetime(n)
        return self.w.val(n)

    def _sp(self):
        if self.r is None:
            return ' '
        return self.r.choice(['', ' ', '  '])

    def _paren(self, text, force=False):
        if force or (self.r is not None and self.r.random() < 0.2):
            if self.r is not None and self.r.random() < 0.3:
                return '( ' + text + ' )'
            return '(' + text + ')'
        return text

    def render(self, ast, parent=None):
        t = ast[0]
        if t == 'has':
            return self._paren('->'.join(ast[1]))
        if t == 'not':
            return self._paren('not ' + '->'.join(ast[1]))
        if t == 'cmp':
            _, op, path, lit = ast
            s = self._sp()
            txt = '->'.join(path) + s + op + s + self.lit(lit)
            if lit[0] == 'num' and s == '' and op.endswith('=') is False:
                pass
            return self._paren(txt)
        if t in ('and', 'or'):
            parts = []
            for c in ast[1]:
                inner = self.render(c, t)
                need = (c[0] == 'or' and t == 'and') or (c[0] == t) or (c[0] == 'and' and t == 'or' and False)
                if c[0] in ('and', 'or') and need:
                    inner = '(' + inner + ')'
                parts.append(inner)
            txt = (' %s ' % t).join(parts)
            return self._paren(txt, force=False) if parent is None else txt
        raise AssertionError(ast)


# ---------------------------------------------------------------------------
# evaluation
# ---------------------------------------------------------------------------

def ref_target(name, rows):
    """The row a reference points at: its id is a Ref of that name, or the plain string."""
    hits = []
    for r in rows:
        i = r.get('id')
        if i is None:
            continue
        if (i[0] == 'ref' and i[1] == name) or (i[0] == 'str' and i[1] == name):
            hits.append(r)
    return hits


def resolve(path, row, rows):
    """Returns an N-form value, ABSENT, or None when the outcome is not firmly specified."""
    cur = row
    for i, name in enumerate(path):
        if not isinstance(cur, dict) or name not in cur:
            return ABSENT
        v = cur[name]
        if i == len(path) - 1:
            return v
        if v[0] != 'ref':
            return ABSENT           # only references are followed
        hits = ref_target(v[1], rows)
        if not hits:
            return ABSENT           # dangling
        if len(hits) > 1:
            return None             # duplicate ids: not specified
        cur = hits[0]
    return ABSENT


def _cmp_kind(n):
    k = D.base_kind(n)
    return k


def compare(op, v, lit):
    """True / False / None."""
    if v == ABSENT:
        return False                      # any comparison on an absent tag is false
    if v is None or v == D.NULL:
        return None                       # explicit null cell: not firmly specified
    kv, kl = _cmp_kind(v), _cmp_kind(lit)
    # Python's numeric tower blurs bool/number, and number-vs-quantity is a modelling question
    if {kv, kl} <= {'bool', 'num', 'qty'} and kv != kl:
        return None
    if kv == 'qty' and kl == 'qty' and v[2] != lit[2]:
        return False if op != '!=' else None
    if kv != kl:
        if op == '!=':
            return None
        return False                      # incomparable kinds: false, not an error
    if kv in ('num', 'qty'):
        a, b = v[1], lit[1]
        if a != a or b != b:
            return None                   # NaN
    elif kv in ('str', 'uri', 'bin'):
        a, b = v[1], lit[1]
    elif kv == 'ref':
        a, b = v[1], lit[1]
        if op in ('==', '!='):
            if (v[2] is None) != (lit[2] is None) or v[2] != lit[2]:
                return None               # display names in reference equality: not specified
    elif kv == 'bool':
        a, b = v[1], lit[1]
    elif kv in ('date', 'time'):
        a, b = v[1:], lit[1:]
    elif kv == 'dt':
        a, b = D.dt_instant(v), D.dt_instant(lit)
    else:
        return None
    if op == '==':
        return a == b
    if op == '!=':
        return a != b
    if kv not in ORDERABLE:
        return None
    if op == '<':
        return a < b
    if op == '<=':
        return a <= b
    if op == '>':
        return a > b
    if op == '>=':
        return a >= b
    raise AssertionError(op)


def evaluate(ast, row, rows):
    t = ast[0]
    if t == 'has':
        v = resolve(ast[1], row, rows)
        if v is None or v == D.NULL:
            return None
        return v != ABSENT
    if t == 'not':
        v = resolve(ast[1], row, rows)
        if v is None or v == D.NULL:
            return None
        return v == ABSENT
    if t == 'cmp':
        v = resolve(ast[2], row, rows)
        if v is None:
            return None
        return compare(ast[1], v, ast[3])
    vals = [evaluate(c, row, rows) for c in ast[1]]
    if t == 'and':
        if any(v is False for v in vals):
            return False
        return None if any(v is None for v in vals) else True
    if t == 'or':
        if any(v is True for v in vals):
            return True
        return None if any(v is None for v in vals) else False
    raise AssertionError(ast)


def size(ast):
    if ast[0] in ('and', 'or'):
        return sum(size(c) for c in ast[1])
    return 1


def shape(ast):
    if ast[0] in ('and', 'or'):
        return '%s(%s)' % (ast[0], ','.join(shape(c) for c in ast[1]))
    if ast[0] == 'cmp':
        return 'cmp'
    return ast[0]
