"""./check <Cxx> <quick|thorough> | ./check <Cxx> --replay <file>"""
import importlib
import os
import sys

from vf import core


def main(argv):
    if len(argv) < 2:
        print(__doc__)
        return 64
    prop = argv[0].upper()
    sys.path.insert(0, core.REPO)
    driver = importlib.import_module('vf.props.' + prop.lower())
    if argv[1] == '--replay':
        return core.run_replay(driver, argv[2])
    tier = argv[1]
    if tier not in ('quick', 'thorough'):
        print(__doc__)
        return 64
    tier = os.environ.get('VERIF_TIER_OVERRIDE', tier)
    seed = int(os.environ.get('VERIF_SEED', '0') or 0)
    return core.run_check(driver, tier, seed)


if __name__ == '__main__':
    sys.exit(main(sys.argv[1:]))
