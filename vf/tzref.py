"""Independent Haystack-zone-name -> tz database name resolution (used to *build* inputs).

A Haystack zone name is the last path component of an Olson name ("New_York" for
"America/New_York", "GMT+5" for "Etc/GMT+5") or a top-level name ("UTC").
"""
import pytz

_CACHE = {}


def candidates(name):
    out = []
    for full in pytz.all_timezones:
        if full == name:
            out.append(full)
        elif full.count('/') == 1 and full.split('/', 1)[1] == name:
            out.append(full)
    return out


def full_name(name):
    if name not in _CACHE:
        c = candidates(name)
        if not c:
            raise KeyError(name)
        # prefer the canonical Area/Name entry over a deprecated top-level alias link,
        # first in tz database order
        slashed = [x for x in c if '/' in x]
        _CACHE[name] = (slashed or c)[0]
    return _CACHE[name]


def check_zone_offset(zone, local_fields, offset_seconds):
    """None when `zone` (a Haystack zone name) has exactly that UTC offset at the instant denoted by the local wall clock
    and offset; otherwise a short reason.  pytz is the calendar."""
    import datetime
    c = candidates(zone)
    if not c:
        return 'unknown zone %r' % (zone,)
    tz = pytz.timezone(full_name(zone))
    y, mo, d, h, mi, s, us = local_fields
    try:
        utc = datetime.datetime(y, mo, d, h, mi, s, us) - datetime.timedelta(seconds=offset_seconds)
        off = pytz.utc.localize(utc).astimezone(tz).utcoffset()
    except (OverflowError, ValueError):
        return None
    got = off.days * 86400 + off.seconds
    if got != offset_seconds:
        return 'zone %s has offset %+d s at that instant, the stamp says %+d s' % (zone, got, offset_seconds)
    return None
