"""Independent ZINC codec over N-form (see vf/domain.py). Never imports hszinc or pyparsing.

read(text)          strict, spec-derived recursive-descent reader  -> [N-form grid, ...]
Writer(rng).doc()   grammar-directed writer making an independent legal spelling choice per token

The grammar is the one written out in DESIGN.md Appendix A.1.
"""
import math
import re
from collections import Counter


def _needs3(x):
    if not isinstance(x, tuple) or not x:
        return False
    if x[0] in ('na', 'xstr', 'list', 'dict', 'grid'):
        return True
    return False


def concrete_ver(n):
    """A grid whose version the generator left open (None: 'whatever the writer picks') gets the lowest version that can
    carry its content."""
    if n[1] is not None:
        return n
    _, ver, meta, cols, rows = n
    vals = [v for _, v in meta] + [v for _, m in cols for _, v in m] + [v for r in rows for _, v in r]
    return ('grid', '3.0' if any(_needs3(v) for v in vals) else '2.0', meta, cols, rows)


class RefReject(Exception):
    def __init__(self, code, pos, detail=''):
        Exception.__init__(self, '%s at %d %s' % (code, pos, detail))
        self.code = code
        self.pos = pos
        self.detail = detail


_VER_NUM = re.compile(r'^(\d+(?:\.\d+)*)(.*)$', re.S)


def ver_lt3(v):
    m = _VER_NUM.match(v)
    if not m:
        raise RefReject('bad-version', 0, v)
    nums = [int(x) for x in m.group(1).split('.')]
    while nums and nums[-1] == 0:
        nums.pop()
    return tuple(nums) < (3,)


ID_RE = re.compile(r'[a-z][A-Za-z0-9_]*')
REF_RE = re.compile(r'@([A-Za-z0-9_:\-.~]*)')
DATE_RE = re.compile(r'(\d{4})-(\d{2})-(\d{2})')
TIME_RE = re.compile(r'(\d{2}):(\d{2}):(\d{2})(?:\.(\d+))?')
DT_RE = re.compile(r'(\d{4})-(\d{2})-(\d{2})[Tt](\d{2}):(\d{2}):(\d{2})(?:\.(\d+))?([Zz]|[+-]\d{2}:\d{2})'
                   r'(?: ([A-Z][A-Za-z0-9_\-+]*))?')
DEC_RE = re.compile(r'-?[0-9][0-9_]*(?:\.[0-9][0-9_]*)?(?:[eE][+-]?[0-9][0-9_]*)?')
UNIT_RE = re.compile(u'(?:[A-Za-z%_/$]|[^\x00-\x7f])+')
XSTR_RE = re.compile(r'([A-Za-z][A-Za-z0-9_]*)\("')
DEG_RE = re.compile(r'-?[0-9]*(?:\.[0-9]+)?')
SEP_RE = re.compile(r' *, *')
STR_ESC = {'b': '\b', 'f': '\f', 'n': '\n', 'r': '\r', 't': '\t', '"': '"', '\\': '\\', '$': '$'}
URI_ESC = set(':/?#[]@`\\&=;')


class Reader(object):
    def __init__(self, text, strict=True):
        self.s = text
        self.i = 0
        self.strict = strict
        self.tokens = Counter()

    # -- helpers ---------------------------------------------------------
    def peek(self, n=1):
        return self.s[self.i:self.i + n]

    def eof(self):
        return self.i >= len(self.s)

    def expect(self, lit, code):
        if not self.s.startswith(lit, self.i):
            raise RefReject(code, self.i, 'expected %r got %r' % (lit, self.s[self.i:self.i + 12]))
        self.i += len(lit)

    def match(self, rx):
        m = rx.match(self.s, self.i)
        if m:
            self.i = m.end()
        return m

    def nl(self):
        if self.s.startswith('\r\n', self.i):
            self.i += 2
            return True
        if self.s.startswith('\n', self.i):
            self.i += 1
            return True
        return False

    def at_nl(self):
        return self.s.startswith('\n', self.i) or self.s.startswith('\r\n', self.i)

    # -- document ----------------------------------------------------------
    def document(self):
        grids = []
        while self.nl():
            pass
        while not self.eof():
            grids.append(self.grid(nested=False))
            while self.nl():
                pass
        return grids

    def grid(self, nested):
        self.expect('ver:', 'missing-version-header')
        if self.peek() != '"':
            raise RefReject('missing-version-header', self.i)
        ver = self.string()
        if not _VER_NUM.match(ver):
            raise RefReject('bad-version', self.i, ver)
        v3 = not ver_lt3(ver)
        meta = ()
        if self.peek() == ' ':
            self.i += 1
            meta = self.meta(v3)
            if any(k == 'ver' for k, _ in meta):
                # the header has one version; a further tag of that name has no agreed reading (and no JSON spelling)
                raise RefReject('second-ver-tag', self.i)
        if not self.nl():
            raise RefReject('header-line', self.i, repr(self.s[self.i:self.i + 12]))
        cols = [self.col(v3)]
        while self.match(SEP_RE):
            cols.append(self.col(v3))
        names = [c for c, _ in cols]
        if len(set(names)) != len(names):
            raise RefReject('duplicate-column', self.i)
        if not self.nl():
            if self.eof() and not nested:
                return ('grid', ver, tuple(meta), tuple(cols), ())
            raise RefReject('column-line', self.i, repr(self.s[self.i:self.i + 12]))
        rows = []
        while True:
            if self.eof():
                break
            if self.at_nl():
                break                      # blank line: end of this grid
            if nested and self.s.startswith('>>', self.i):
                break
            cells = [self.cell(v3)]
            while self.match(SEP_RE):
                cells.append(self.cell(v3))
            if len(cells) != len(cols):
                raise RefReject('cell-count', self.i, '%d cells for %d columns' % (len(cells), len(cols)))
            rows.append(tuple((c, v) for c, v in zip(names, cells)))
            if not self.nl():
                if self.eof() and not nested:
                    break
                raise RefReject('row-line', self.i, repr(self.s[self.i:self.i + 12]))
        self.tokens['grid'] += 1
        return ('grid', ver, tuple(meta), tuple(cols), tuple(rows))

    def meta(self, v3):
        items = [self.meta_item(v3)]
        while self.peek() == ' ' and ID_RE.match(self.s, self.i + 1):
            self.i += 1
            items.append(self.meta_item(v3))
        keys = [k for k, _ in items]
        if len(set(keys)) != len(keys):
            raise RefReject('duplicate-tag', self.i)
        return items

    def meta_item(self, v3):
        m = self.match(ID_RE)
        if not m:
            raise RefReject('tag-name', self.i, repr(self.s[self.i:self.i + 12]))
        if self.peek() == ':':
            self.i += 1
            return (m.group(0), self.val(v3))
        return (m.group(0), ('marker',))

    def col(self, v3):
        m = self.match(ID_RE)
        if not m:
            raise RefReject('column-name', self.i, repr(self.s[self.i:self.i + 12]))
        meta = ()
        if self.peek() == ' ' and ID_RE.match(self.s, self.i + 1):
            self.i += 1
            meta = tuple(self.meta(v3))
        return (m.group(0), meta)

    def cell(self, v3):
        # empty cell = null
        if self.eof() or self.at_nl() or SEP_RE.match(self.s, self.i):
            return ('null',)
        return self.val(v3)

    # -- values --------------------------------------------------------------
    def val(self, v3):
        s, i = self.s, self.i
        c = s[i:i + 1]
        if c == '"':
            self.tokens['str'] += 1
            return ('str', self.string())
        if c == '`':
            self.tokens['uri'] += 1
            return ('uri', self.uri())
        if c == '@':
            return self.ref()
        if c == '[':
            if not v3:
                raise RefReject('list-under-2.0', i)
            return self.list_()
        if c == '{':
            if not v3:
                raise RefReject('dict-under-2.0', i)
            return self.dict_()
        if s.startswith('<<', i):
            if not v3:
                raise RefReject('grid-under-2.0', i)
            self.i += 2
            g = self.grid(nested=True)
            self.expect('>>', 'unterminated-grid')
            return g
        if s.startswith('C(', i):
            return self.coord()
        if s.startswith('Bin(', i) and (not v3 or not s.startswith('Bin("', i)):
            if v3:
                raise RefReject('bin-under-3.0', i)
            j = s.find(')', i)
            if j < 0:
                raise RefReject('unterminated-bin', i)
            body = s[i + 4:j]
            if not re.fullmatch(r'[\x20-\x27\x2a-\x7e]*', body):
                raise RefReject('bin-char', i)
            self.i = j + 1
            self.tokens['bin'] += 1
            return ('bin', body)
        m = XSTR_RE.match(s, i)
        if m:
            if not v3:
                raise RefReject('xstr-under-2.0', i)
            self.i = m.end() - 1
            payload = self.string()
            self.expect(')', 'unterminated-xstr')
            if m.group(1) == 'Bin':
                # 3.0 spelling of a Bin: Bin("mime/type")
                self.tokens['bin'] += 1
                return ('bin', payload)
            self.tokens['xstr'] += 1
            if m.group(1) == 'hex':
                # the payload denotes bytes: only a well-formed payload is taken, and it is known by its canonical text
                if len(payload) % 2 or re.search(r'[^0-9a-fA-F]', payload):
                    raise RefReject('xstr-payload-malformed', i, payload[:20])
                payload = payload.lower()
            elif m.group(1) == 'b64':
                import base64
                import binascii
                try:
                    raw = base64.b64decode(payload.encode('ascii'), validate=True)
                except (binascii.Error, UnicodeEncodeError, ValueError):
                    raise RefReject('xstr-payload-malformed', i, payload[:20])
                payload = base64.b64encode(raw).decode('ascii')
            return ('xstr', m.group(1), payload)
        m = DT_RE.match(s, i)
        if m:
            self.i = m.end()
            self.tokens['datetime'] += 1
            return self._dt(m)
        m = DATE_RE.match(s, i)
        if m and not re.match(r'[Tt0-9]', s[m.end():m.end() + 1] or ' '):
            self.i = m.end()
            y, mo, d = [int(x) for x in m.groups()]
            self._check_date(y, mo, d)
            self.tokens['date'] += 1
            return ('date', y, mo, d)
        m = TIME_RE.match(s, i)
        if m:
            self.i = m.end()
            h, mi, sec = int(m.group(1)), int(m.group(2)), int(m.group(3))
            if h > 23 or mi > 59 or sec > 59:
                raise RefReject('bad-time', i)
            self.tokens['time'] += 1
            return ('time', h, mi, sec, self._usec(m.group(4)))
        for lit, n in (('NaN', ('num', float('nan'), None)), ('NA', ('na',)), ('N', ('null',)),
                       ('INF', ('num', float('inf'), None)), ('-INF', ('num', float('-inf'), None)),
                       ('M', ('marker',)), ('R', ('remove',)), ('T', ('bool', True)), ('F', ('bool', False))):
            if s.startswith(lit, i) and not re.match(r'[A-Za-z0-9_(]', s[i + len(lit):i + len(lit) + 1] or ' '):
                if lit == 'NA' and not v3:
                    raise RefReject('na-under-2.0', i)
                self.i += len(lit)
                self.tokens['nonfinite' if n[0] == 'num' else n[0]] += 1
                return n
        m = DEC_RE.match(s, i)
        if m:
            self.i = m.end()
            txt = m.group(0).replace('_', '')
            try:
                v = float(txt)
            except ValueError:
                raise RefReject('bad-number', i, txt)
            u = self.match(UNIT_RE)
            self.tokens['quantity' if u else 'number'] += 1
            return ('num', v, u.group(0) if u else None)
        raise RefReject('bad-value', i, repr(s[i:i + 16]))

    def _check_date(self, y, mo, d):
        import datetime
        try:
            datetime.date(y, mo, d)
        except ValueError:
            raise RefReject('bad-date', self.i)

    def _usec(self, frac):
        if not frac:
            return 0
        return int(frac[:6].ljust(6, '0'))

    def _dt(self, m):
        y, mo, d, h, mi, sec = [int(x) for x in m.groups()[:6]]
        self._check_date(y, mo, d)
        if h > 23 or mi > 59 or sec > 59:
            raise RefReject('bad-time', self.i)
        off = m.group(8)
        if off in 'Zz':
            o = 0
        else:
            o = (int(off[1:3]) * 60 + int(off[4:6])) * 60 * (1 if off[0] == '+' else -1)
        n = ('dt', (y, mo, d, h, mi, sec, self._usec(m.group(7))), o, m.group(9))
        if n[3] is not None:
            from vf import tzref
            why = tzref.check_zone_offset(n[3], n[1], n[2])
            if why:
                raise RefReject('zone-offset-mismatch', self.i, why)
        return n

    def string(self):
        s = self.s
        self.expect('"', 'bad-string')
        out = []
        while True:
            if self.i >= len(s):
                raise RefReject('unterminated-string', self.i)
            c = s[self.i]
            if c == '"':
                self.i += 1
                return ''.join(out)
            if c == '\\':
                e = s[self.i + 1:self.i + 2]
                if e in STR_ESC and e != '':
                    out.append(STR_ESC[e])
                    self.i += 2
                elif e == 'u':
                    hx = s[self.i + 2:self.i + 6]
                    if not re.fullmatch(r'[0-9a-fA-F]{4}', hx):
                        raise RefReject('bad-unicode-escape', self.i)
                    out.append(chr(int(hx, 16)))
                    self.i += 6
                elif e == 'U':
                    # hszinc documents \U as an accepted variant of \u: arguable, own reason code
                    raise RefReject('upper-U-escape', self.i, repr(e))
                else:
                    raise RefReject('illegal-string-escape', self.i, repr(e))
                continue
            if ord(c) < 0x20:
                raise RefReject('raw-control-in-string', self.i, repr(c))
            out.append(c)
            self.i += 1

    def uri(self):
        s = self.s
        self.expect('`', 'bad-uri')
        out = []
        while True:
            if self.i >= len(s):
                raise RefReject('unterminated-uri', self.i)
            c = s[self.i]
            if c == '`':
                self.i += 1
                return ''.join(out)
            if c == '\\':
                e = s[self.i + 1:self.i + 2]
                if e == 'u':
                    hx = s[self.i + 2:self.i + 6]
                    if not re.fullmatch(r'[0-9a-fA-F]{4}', hx):
                        raise RefReject('bad-unicode-escape', self.i)
                    out.append(chr(int(hx, 16)))
                    self.i += 6
                elif e != '' and e in URI_ESC:
                    if e == '#':
                        out.append('\\')     # hszinc documents that it keeps the backslash here
                    out.append(e)
                    self.i += 2
                elif e != '' and e in 'bfnrtU':
                    # hszinc reads (and writes) the string-style escapes inside URIs too: arguable, own reason code
                    raise RefReject('uri-escape-string-style', self.i, repr(e))
                else:
                    raise RefReject('illegal-uri-escape', self.i, repr(e))
                continue
            if ord(c) < 0x20:
                raise RefReject('raw-control-in-uri', self.i, repr(c))
            out.append(c)
            self.i += 1

    def ref(self):
        m = self.match(REF_RE)
        name = m.group(1)
        dis = None
        if self.s.startswith(' "', self.i):
            self.i += 1
            dis = self.string()
        self.tokens['ref'] += 1
        return ('ref', name, dis)

    def coord(self):
        i0 = self.i
        self.expect('C(', 'bad-coord')
        a = self.match(DEG_RE)
        if not self.match(SEP_RE):
            raise RefReject('bad-coord', i0)
        b = self.match(DEG_RE)
        self.expect(')', 'bad-coord')
        try:
            lat, lng = float(a.group(0) or '0'), float(b.group(0) or '0')
        except ValueError:
            raise RefReject('bad-coord', i0)
        self.tokens['coord'] += 1
        return ('coord', lat, lng)

    def list_(self):
        self.expect('[', 'bad-list')
        self.match(re.compile(' *'))
        items = []
        while True:
            if self.eof():
                raise RefReject('unterminated-list', self.i)
            if self.peek() == ']':
                self.i += 1
                break
            items.append(self.val(True))
            self.match(re.compile(' *'))
            if self.peek() == ',':
                self.match(SEP_RE)
                continue
            if self.peek() == ']':
                self.i += 1
                break
            raise RefReject('unterminated-list', self.i, repr(self.s[self.i:self.i + 8]))
        self.tokens['list'] += 1
        return ('list', tuple(items))

    def dict_(self):
        self.expect('{', 'bad-dict')
        self.match(re.compile(' *'))
        items = []
        while True:
            if self.eof():
                raise RefReject('unterminated-dict', self.i)
            if self.peek() == '}':
                self.i += 1
                break
            m = self.match(ID_RE)
            if not m:
                raise RefReject('dict-key', self.i, repr(self.s[self.i:self.i + 8]))
            if self.peek() == ':':
                self.i += 1
                items.append((m.group(0), self.val(True)))
            else:
                items.append((m.group(0), ('marker',)))
            sp = self.match(re.compile(' *'))
            if self.peek() == '}':
                self.i += 1
                break
            if sp.group(0) == '':
                raise RefReject('dict-separator', self.i, repr(self.s[self.i:self.i + 8]))
        keys = [k for k, _ in items]
        if len(set(keys)) != len(keys):
            raise RefReject('duplicate-tag', self.i)
        self.tokens['dict'] += 1
        return ('dict', tuple(items))


def read(text, counts=None):
    r = Reader(text)
    grids = r.document()
    if counts is not None:
        counts.update(r.tokens)
    return grids


def read_scalar(text, v3=True):
    r = Reader(text)
    v = r.val(v3)
    if not r.eof():
        raise RefReject('trailing-text', r.i, repr(text[r.i:r.i + 12]))
    return v


# ---------------------------------------------------------------------------
# Writer with independent spelling choices
# ---------------------------------------------------------------------------

class Writer(object):
    """rng=None => one fixed canonical spelling; otherwise every token picks among the legal spellings."""

    def __init__(self, rng=None, allow_raw_nonascii=True, script=None, policy=None):
        self.policy = policy      # {dimension: option}: uniform spelling (used while minimising)
        self.r = rng
        self.log = Counter()
        self.raw_nonascii = allow_raw_nonascii
        self.nl = '\n'
        self.script = script      # forced choice indices (replay / choice minimisation)
        self.trace = []           # (dimension, index, option) per pick, in order

    def pick(self, dim, options):
        pos = len(self.trace)
        if self.policy is not None:
            want = self.policy.get(dim)
            i = options.index(want) if want in options else 0
        elif self.script is not None and pos < len(self.script):
            i = self.script[pos] % len(options)
        elif self.r is None:
            i = 0
        else:
            i = self.r.randrange(len(options))
        o = options[i]
        self.trace.append((dim, i, o))
        self.log['%s=%s' % (dim, o)] += 1
        return o

    # -- lexical ------------------------------------------------------------
    def sep(self):
        w = self.pick('sep', ['tight', 'space-after', 'space-before', 'both', 'wide'])
        return {'tight': ',', 'space-after': ', ', 'space-before': ' ,', 'both': ' , ', 'wide': '  ,  '}[w]

    def str_body(self, s):
        out = []
        for ch in s:
            o = ord(ch)
            short = {'\b': '\\b', '\f': '\\f', '\n': '\\n', '\r': '\\r', '\t': '\\t', '"': '\\"', '\\': '\\\\'}
            if ch in short:
                w = self.pick('strchar-esc', ['short', 'unicode-lower', 'unicode-upper'])
                out.append(short[ch] if w == 'short' else self._u(o, w))
            elif ch == '$':
                w = self.pick('strchar-dollar', ['escaped', 'raw', 'unicode-lower'])
                out.append({'escaped': '\\$', 'raw': '$', 'unicode-lower': '\\u0024'}[w])
            elif o < 0x20:
                w = self.pick('strchar-c0', ['unicode-lower', 'unicode-upper'])
                out.append(self._u(o, w))
            elif o > 0xffff:
                self.log['strchar-nonbmp=raw'] += 1
                out.append(ch)
            elif o >= 0x80:
                opts = ['unicode-lower', 'unicode-upper'] + (['raw'] if self.raw_nonascii and not (0xd800 <= o <= 0xdfff) else [])
                w = self.pick('strchar-nonascii', opts)
                out.append(ch if w == 'raw' else self._u(o, w))
            else:
                w = self.pick('strchar-ascii', ['raw', 'raw', 'raw', 'unicode-lower'])
                out.append(ch if w == 'raw' else self._u(o, w))
        return ''.join(out)

    def _u(self, o, w):
        return ('\\u%04x' if w == 'unicode-lower' else '\\u%04X') % o

    def string(self, s):
        return '"' + self.str_body(s) + '"'

    def uri(self, s):
        out = []
        for ch in s:
            o = ord(ch)
            if ch == '`' or ch == '\\':
                w = self.pick('urichar-meta', ['backslash', 'unicode-lower'])
                out.append('\\' + ch if w == 'backslash' else self._u(o, w))
            elif ch in ':/?[]@&=;':
                w = self.pick('urichar-reserved', ['raw', 'raw', 'backslash'])
                out.append(ch if w == 'raw' else '\\' + ch)
            elif o < 0x20:
                out.append(self._u(o, self.pick('urichar-c0', ['unicode-lower', 'unicode-upper'])))
            elif o > 0xffff:
                out.append(ch)
            elif o >= 0x80:
                opts = ['unicode-lower', 'unicode-upper'] + (['raw'] if self.raw_nonascii and not (0xd800 <= o <= 0xdfff) else [])
                w = self.pick('urichar-nonascii', opts)
                out.append(ch if w == 'raw' else self._u(o, w))
            else:
                out.append(ch)
        return '`' + ''.join(out) + '`'

    def number(self, v):
        if isinstance(v, float):
            if math.isnan(v):
                return 'NaN'
            if math.isinf(v):
                return 'INF' if v > 0 else '-INF'
        base = repr(v)
        if isinstance(v, int) and not isinstance(v, bool):
            cands = [('plain', base)]
            if abs(v) >= 1000:
                cands.append(('underscores', self._under(base)))
            cands.append(('dot-zero', base + '.0'))
            cands.append(('exp-zero', base + 'e0'))
            cands.append(('leading-zero', ('-0' + base[1:]) if v < 0 else '0' + base))
            cands.append(('Exp-plus', base + 'E+0'))
            cands.append(('exp-underscore', base + 'e0_0'))
        else:
            cands = [('repr', base)]
            if 'e' in base:
                mant, ex = base.split('e')
                cands.append(('Exp-upper', mant + 'E' + ex))
                if ex.startswith('+'):
                    cands.append(('exp-nosign', mant + 'e' + ex[1:]))
                if '.' not in mant:
                    cands.append(('exp-dot', mant + '.0e' + ex))
                if len(ex.lstrip('+-')) >= 2:
                    cands.append(('exp-underscore', mant + 'e' + ex[:-1] + '_' + ex[-1]))
                cands.append(('exp-trailing-underscore', base + '_'))
            else:
                cands.append(('trailing-zeros', base + '00'))
                cands.append(('exp-shift', self._shift(base)))
                if abs(v) >= 1000:
                    i, f = base.split('.')
                    cands.append(('underscores', self._under(i) + '.' + f))
                if base.startswith('0.') or base.startswith('-0.'):
                    cands.append(('frac-underscore', base[:-1] + '_' + base[-1] if len(base.split('.')[1]) > 1 else base))
        ok = []
        for name, txt in cands:
            try:
                if float(txt.replace('_', '')) == float(v) and DEC_RE.fullmatch(txt):
                    ok.append((name, txt))
            except (ValueError, OverflowError):
                pass
        if not ok:
            ok = [('repr', base)]
        name = self.pick('number', [n for n, _ in ok])
        return dict(ok)[name]

    def _under(self, digits):
        neg = digits.startswith('-')
        d = digits[1:] if neg else digits
        parts = []
        while len(d) > 3:
            parts.insert(0, d[-3:])
            d = d[:-3]
        parts.insert(0, d)
        return ('-' if neg else '') + '_'.join(parts)

    def _shift(self, base):
        # 12.5 -> 1.25e1 style is hard to keep exact; use "<base>e0" / "<base>E-0"
        return base + 'e0'

    def time(self, n):
        _, h, mi, s, us = n
        txt = '%02d:%02d:%02d' % (h, mi, s)
        if us:
            frac = ('%06d' % us).rstrip('0')
            w = self.pick('time-fraction', ['minimal', 'six', 'padded'])
            if w == 'six':
                frac = '%06d' % us
            elif w == 'padded' and len(frac) < 6:
                frac = frac + '0'
            txt += '.' + frac
        else:
            w = self.pick('time-zero-fraction', ['none', 'none', 'dot-zero', 'dot-000'])
            txt += {'none': '', 'dot-zero': '.0', 'dot-000': '.000'}[w]
        return txt

    def datetime(self, n):
        _, (y, mo, d, h, mi, s, us), off, zone = n
        t = self.pick('dt-T', ['T', 't'])
        txt = '%04d-%02d-%02d%s%s' % (y, mo, d, t, self.time(('time', h, mi, s, us)))
        if off == 0:
            w = self.pick('dt-utc-offset', ['Z', 'z', '+00:00', '-00:00'])
            txt += w
        else:
            a = abs(off)
            assert a % 60 == 0
            txt += '%s%02d:%02d' % ('+' if off > 0 else '-', a // 3600, (a % 3600) // 60)
        if zone is not None:
            txt += ' ' + zone
            self.log['dt-zone=named'] += 1
        else:
            self.log['dt-zone=absent'] += 1
        return txt

    def deg(self, v):
        base = repr(float(v))
        if 'e' in base or 'inf' in base or 'nan' in base:
            base = '%.12f' % v
        cands = [('repr', base)]
        if base.endswith('.0'):
            cands.append(('integer', base[:-2]))
        if base.startswith('0.') and base != '0.0':
            cands.append(('no-leading-zero', base[1:]))
        if base.startswith('-0.') and base != '-0.0':
            cands.append(('no-leading-zero', '-' + base[2:]))
        name = self.pick('coord-deg', [n for n, _ in cands])
        return dict(cands)[name]

    # -- values -----------------------------------------------------------------
    def val(self, n, in_list=False):
        k = n[0]
        if k == 'null':
            return 'N'
        if k == 'marker':
            return 'M'
        if k == 'remove':
            return 'R'
        if k == 'na':
            return 'NA'
        if k == 'bool':
            return 'T' if n[1] else 'F'
        if k == 'num':
            return self.number(n[1]) + (n[2] or '')
        if k == 'str':
            return self.string(n[1])
        if k == 'uri':
            return self.uri(n[1])
        if k == 'bin':
            if getattr(self, 'v3', False):
                return 'Bin(%s)' % self.string(n[1])
            return 'Bin(%s)' % n[1]
        if k == 'ref':
            return '@' + n[1] + ('' if n[2] is None else ' ' + self.string(n[2]))
        if k == 'xstr':
            payload = n[2]
            if n[1] == 'hex' and re.search('[a-f]', payload):
                # hexadecimal digits may be written in either case; the bytes are the same
                if self.pick('hex-case', ['lower', 'upper']) == 'upper':
                    payload = payload.upper()
            return '%s(%s)' % (n[1], self.string(payload))
        if k == 'date':
            return '%04d-%02d-%02d' % n[1:]
        if k == 'time':
            return self.time(n)
        if k == 'dt':
            return self.datetime(n)
        if k == 'coord':
            return 'C(%s%s%s)' % (self.deg(n[1]), self.sep(), self.deg(n[2]))
        if k == 'list':
            w = self.pick('list-form', ['tight', 'inner-blanks', 'trailing-comma', 'trailing-comma-blanks']) if n[1] else \
                self.pick('list-empty', ['[]', '[ ]'])
            if not n[1]:
                return w
            body = self.sep().join(self.val(x, True) for x in n[1])
            if w == 'tight':
                return '[' + body + ']'
            if w == 'inner-blanks':
                return '[ ' + body + ' ]'
            if w == 'trailing-comma':
                return '[' + body + ',]'
            return '[ ' + body + ' , ]'
        if k == 'dict':
            if not n[1]:
                return self.pick('dict-empty', ['{}', '{ }'])
            tags = []
            for key, v in n[1]:
                if v == ('marker',):
                    w = self.pick('dict-marker', ['bare', 'explicit'])
                    tags.append(key if w == 'bare' else key + ':M')
                else:
                    tags.append(key + ':' + self.val(v))
            w = self.pick('dict-form', ['tight', 'inner-blanks', 'double-space'])
            if w == 'tight':
                return '{' + ' '.join(tags) + '}'
            if w == 'inner-blanks':
                return '{ ' + ' '.join(tags) + ' }'
            return '{' + '  '.join(tags) + '}'
        if k == 'grid':
            return '<<' + self.grid(n, final_nl=True) + '>>'
        raise AssertionError(k)

    def meta(self, items):
        out = []
        for key, v in items:
            if v == ('marker',):
                w = self.pick('meta-marker', ['bare', 'explicit'])
                out.append(key if w == 'bare' else key + ':M')
            else:
                out.append(key + ':' + self.val(v))
        return ' '.join(out)

    def grid(self, n, final_nl=True):
        n = concrete_ver(n)
        _, ver, meta, cols, rows = n
        nl = self.nl
        outer_v3 = getattr(self, 'v3', False)
        self.v3 = not ver_lt3(ver)
        try:
            return self._grid(n, final_nl)
        finally:
            self.v3 = outer_v3

    def _grid(self, n, final_nl=True):
        _, ver, meta, cols, rows = n
        nl = self.nl
        head = 'ver:"%s"' % ver
        if meta:
            head += ' ' + self.meta(meta)
        colparts = []
        for c, m in cols:
            colparts.append(c + (' ' + self.meta(m) if m else ''))
        # column separators: a column with metadata followed by " ," would be ambiguous with more meta; keep tight/after
        lines = [head, self._join_cols(colparts)]
        names = [c for c, _ in cols]
        for row in rows:
            d = dict(row)
            cells = []
            for ci, c in enumerate(names):
                v = d.get(c, ('null',))
                if v == ('null',):
                    if len(names) == 1:
                        cells.append('N')
                    else:
                        w = self.pick('null-cell', ['N', 'empty'])
                        cells.append('' if w == 'empty' else 'N')
                else:
                    cells.append(self.val(v))
            line = ''
            for ci, cell in enumerate(cells):
                if ci:
                    line += self.sep()
                line += cell
            lines.append(line)
        text = nl.join(lines)
        if final_nl:
            text += nl
        return text

    def _join_cols(self, parts):
        out = ''
        for i, p in enumerate(parts):
            if i:
                out += self.sep()
            out += p
        return out

    def doc(self, grids, final_newline=True):
        """Several grids separated by >= 1 blank line."""
        self.nl = self.pick('line-end', ['LF', 'LF', 'CRLF'])
        self.nl = '\n' if self.nl == 'LF' else '\r\n'
        parts = []
        for i, g in enumerate(grids):
            parts.append(self.grid(g, final_nl=True))
        sep = self.nl
        if len(grids) > 1:
            w = self.pick('grid-separator', ['one-blank-line', 'two-blank-lines'])
            sep = self.nl if w == 'one-blank-line' else self.nl * 2
        text = sep.join(parts)
        if not final_newline and text.endswith(self.nl):
            text = text[:-len(self.nl)]
        self.log['final-newline=' + ('present' if final_newline else 'absent')] += 1
        return text
