"""Deterministic cooperative scheduler on sys.monitoring LINE events (C13).

Worker threads stop at every source line of a chosen set of code objects; exactly
one worker is runnable between two decision points, so an execution is a
deterministic function of the schedule (a list of (decision index, thread)
overrides of the default non-preemptive policy).  `explore()` enumerates the
schedules depth-first up to a preemption bound.
"""
import sys
import threading
import time

TOOL = 4


class Deadlock(Exception):
    pass


class Scheduler(object):
    def __init__(self, codes, overrides=(), wait_s=10.0):
        self.codes = set(codes)
        self.cond = threading.Condition()
        self.overrides = dict(overrides)      # decision index -> thread id to run
        self.trace = []                       # (tid, function, line)
        self.decisions = []                   # per decision point: (running tid, [enabled tids], chosen)
        self.current = None
        self.waiting = set()
        self.live = set()
        self.tid_of = {}                      # threading ident -> small tid
        self.wait_s = wait_s
        self.failed = None

    # -- called from worker threads ---------------------------------------
    def _decide(self, tid):
        """Must hold cond. Pick who runs next among the enabled workers."""
        enabled = sorted(self.waiting | ({tid} if tid in self.live else set()))
        if not enabled:
            self.current = None
            return
        d = len(self.decisions)
        default = tid if tid in enabled else enabled[0]
        choice = self.overrides.get(d, default)
        if choice not in enabled:
            choice = default
        self.decisions.append((tid, enabled, choice))
        self.current = choice

    def yield_point(self, tid, fname, line):
        with self.cond:
            self.trace.append((tid, fname, line))
            self.waiting.add(tid)
            if self.current == tid or self.current is None:
                self.waiting.discard(tid)
                self._decide(tid)
                if self.current != tid:
                    self.waiting.add(tid)
                self.cond.notify_all()
            t0 = time.time()
            while self.current != tid:
                if not self.cond.wait(timeout=0.5):
                    if time.time() - t0 > self.wait_s:
                        self.failed = 'thread %d starved at %s:%d' % (tid, fname, line)
                        self.current = tid
                        break
            self.waiting.discard(tid)

    def start_point(self, tid):
        """First stop of a worker, before it touches the code under test."""
        with self.cond:
            self.live.add(tid)
            self.waiting.add(tid)
            self.cond.notify_all()
            t0 = time.time()
            while self.current != tid:
                if not self.cond.wait(timeout=0.5):
                    if time.time() - t0 > self.wait_s:
                        self.failed = 'thread %d never started' % tid
                        self.current = tid
                        break
            self.waiting.discard(tid)

    def finish(self, tid):
        with self.cond:
            self.live.discard(tid)
            self.waiting.discard(tid)
            if self.current == tid:
                self._decide(tid)
            self.cond.notify_all()

    # -- monitoring callback ------------------------------------------------
    def on_line(self, code, line):
        tid = self.tid_of.get(threading.get_ident())
        if tid is None:
            return
        self.yield_point(tid, code.co_name, line)


_active = [None]


def _line_cb(code, line):
    s = _active[0]
    if s is not None:
        s.on_line(code, line)


def install(codes):
    mon = sys.monitoring
    try:
        mon.use_tool_id(TOOL, 'vf-sched')
    except ValueError:
        pass
    mon.register_callback(TOOL, mon.events.LINE, _line_cb)
    for c in codes:
        mon.set_local_events(TOOL, c, mon.events.LINE)


def run_schedule(codes, ops, overrides=(), wait_s=10.0):
    """ops: list of callables (one per worker thread). Returns (results, scheduler)."""
    s = Scheduler(codes, overrides, wait_s)
    results = [None] * len(ops)

    def body(tid, fn):
        s.tid_of[threading.get_ident()] = tid
        s.start_point(tid)
        try:
            results[tid] = ('ok', fn())
        except BaseException as e:     # noqa - the exception class is the observation
            results[tid] = ('raise', type(e).__name__, str(e)[:200])
        finally:
            s.tid_of.pop(threading.get_ident(), None)
            s.finish(tid)
    _active[0] = s
    threads = [threading.Thread(target=body, args=(i, fn), daemon=True) for i, fn in enumerate(ops)]
    for t in threads:
        t.start()
    # wait until every worker is parked at its start point, then release per schedule
    t0 = time.time()
    with s.cond:
        while len(s.waiting) < len(ops) and time.time() - t0 < wait_s:
            s.cond.wait(timeout=0.05)
        s._decide(-1)
        s.cond.notify_all()
    for t in threads:
        t.join(timeout=wait_s * 3)
        if t.is_alive():
            s.failed = s.failed or 'worker did not finish'
    _active[0] = None
    return results, s


def explore(codes, make_ops, check, bound, max_schedules=100000, wait_s=10.0, max_seconds=None):
    """Enumeration (breadth first in the number of overrides) of schedules with at most `bound` overrides.

    make_ops() -> fresh list of callables (state reset is the caller's business);
    check(results, scheduler, overrides) is called after every execution.
    Returns statistics."""
    # breadth first in the number of preemptions: every single-preemption schedule is run before any
    # two-preemption one, so a cap on the number of schedules cuts the deepest level only
    import collections
    stack = collections.deque([()])
    seen = set()
    stats = {'schedules': 0, 'fingerprints': set(), 'max_decisions': 0, 'failed': [], 'by_preemptions': {}}
    t_start = time.time()
    while stack and stats['schedules'] < max_schedules:
        if max_seconds is not None and time.time() - t_start > max_seconds:
            # a budget on the exploration, not a verdict: what was not run is reported as left unexplored
            stats['stopped_by_time_budget'] = True
            break
        ov = stack.popleft()
        if ov in seen:
            continue
        seen.add(ov)
        results, s = run_schedule(codes, make_ops(), ov, wait_s)
        stats['schedules'] += 1
        stats['by_preemptions'][len(ov)] = stats['by_preemptions'].get(len(ov), 0) + 1
        stats['fingerprints'].add(tuple(s.trace))
        stats['max_decisions'] = max(stats['max_decisions'], len(s.decisions))
        if s.failed:
            stats['failed'].append((ov, s.failed))
        check(results, s, ov)
        if len(ov) < bound:
            last = ov[-1][0] if ov else -1
            for d in range(last + 1, len(s.decisions)):
                running, enabled, chosen = s.decisions[d]
                for t in enabled:
                    if t != chosen:
                        stack.append(ov + ((d, t),))
    stats['left_unexplored'] = len(stack)
    return stats
