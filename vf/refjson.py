"""Independent Haystack-JSON codec over N-form. Never imports hszinc.

read(obj, strict)   JSON-decoded object -> [N-form grid, ...]   (strict = writer-side conformance for C06)
Writer(rng).doc()   N-form grids -> JSON-encodable object with an independent legal spelling per value
Grammar: DESIGN.md Appendix A.2.
"""
import math
import re
from collections import Counter

from vf.refzinc import ver_lt3, RefReject, concrete_ver

ID_RE = re.compile(r'^[a-z][A-Za-z0-9_]*$')
NUM_RE = re.compile(r'^(-?\d+(?:\.\d+)?(?:[eE][+-]?\d+)?|INF|-INF|NaN)(?: (.*))?$', re.S)
REFID_RE = re.compile(r'^([A-Za-z0-9_:\-.~]+)(?: (.*))?$', re.S)
DATE_RE = re.compile(r'^(\d{4})-(\d{2})-(\d{2})$')
TIME_RE = re.compile(r'^(\d{2}):(\d{2})(?::(\d{2})(?:\.(\d+))?)?$')
DT_RE = re.compile(r'^(\d{4})-(\d{2})-(\d{2})T(\d{2}):(\d{2}):(\d{2})(?:\.(\d+))?(Z|z|[+-]\d{2}:\d{2})'
                   r'(?: ([A-Za-z][A-Za-z0-9_\-+]*))?$')
COORD_RE = re.compile(r'^(-?\d*\.?\d*),(-?\d*\.?\d*)$')
XSTR_RE = re.compile(r'^([A-Za-z][A-Za-z0-9_]*):(.*)$', re.S)


class Reader(object):
    def __init__(self, strict=False):
        self.strict = strict
        self.tokens = Counter()

    def doc(self, obj):
        if isinstance(obj, list):
            return [self.grid(g) for g in obj]
        return [self.grid(obj)]

    def grid(self, obj):
        if not isinstance(obj, dict):
            raise RefReject('grid-not-object', 0, type(obj).__name__)
        keys = set(obj.keys())
        if self.strict:
            if keys != {'meta', 'cols', 'rows'}:
                raise RefReject('grid-shape', 0, repr(sorted(keys)))
        elif not {'meta', 'cols'} <= keys or keys - {'meta', 'cols', 'rows'}:
            raise RefReject('grid-shape', 0, repr(sorted(keys)))
        meta = obj['meta']
        if not isinstance(meta, dict) or not isinstance(meta.get('ver'), str):
            raise RefReject('meta-ver', 0)
        ver = meta['ver']
        v3 = not ver_lt3(ver)
        mitems = []
        for k, v in meta.items():
            if k == 'ver':
                continue
            if not ID_RE.match(k):
                raise RefReject('tag-name', 0, k)
            mitems.append((k, self.val(v, v3)))
        cols = []
        if not isinstance(obj['cols'], list):
            raise RefReject('cols-not-array', 0)
        for c in obj['cols']:
            if not isinstance(c, dict) or not isinstance(c.get('name'), str) or not ID_RE.match(c['name']):
                raise RefReject('col-name', 0, repr(c))
            cm = []
            for k, v in c.items():
                if k == 'name':
                    continue
                if not ID_RE.match(k):
                    raise RefReject('tag-name', 0, k)
                cm.append((k, self.val(v, v3)))
            cols.append((c['name'], tuple(cm)))
        names = [c for c, _ in cols]
        if len(set(names)) != len(names):
            raise RefReject('duplicate-column', 0)
        rows_obj = obj.get('rows')
        if rows_obj is None:
            if self.strict:
                raise RefReject('rows-missing', 0)
            rows_obj = []
        if not isinstance(rows_obj, list):
            raise RefReject('rows-not-array', 0)
        rows = []
        for r in rows_obj:
            if not isinstance(r, dict):
                raise RefReject('row-not-object', 0)
            row = []
            for k, v in r.items():
                if k not in names:
                    raise RefReject('row-key-not-a-column', 0, k)
                row.append((k, self.val(v, v3)))
            rows.append(tuple(row))
        self.tokens['grid'] += 1
        return ('grid', ver, tuple(mitems), tuple(cols), tuple(rows))

    def val(self, v, v3):
        t = self.tokens
        if v is None:
            t['null'] += 1
            return ('null',)
        if v is True or v is False:
            t['bool'] += 1
            return ('bool', v)
        if isinstance(v, (int, float)):
            if self.strict:
                raise RefReject('raw-json-number', 0, repr(v))
            t['raw-number'] += 1
            return ('num', v, None)
        if isinstance(v, list):
            if not v3:
                raise RefReject('list-under-2.0', 0)
            t['list'] += 1
            return ('list', tuple(self.val(x, v3) for x in v))
        if isinstance(v, dict):
            if not v3:
                raise RefReject('dict-under-2.0', 0)
            if {'meta', 'cols', 'rows'} <= set(v.keys()):
                return self.grid(v)
            out = []
            for k, x in v.items():
                if not ID_RE.match(k):
                    raise RefReject('tag-name', 0, k)
                out.append((k, self.val(x, v3)))
            t['dict'] += 1
            return ('dict', tuple(out))
        if not isinstance(v, str):
            raise RefReject('bad-json-type', 0, type(v).__name__)
        if v == 'm:':
            t['marker'] += 1
            return ('marker',)
        if v == 'z:':
            if not v3:
                raise RefReject('na-under-2.0', 0)
            t['na'] += 1
            return ('na',)
        if v == '-:':
            if self.strict and not v3:
                raise RefReject('remove-3.0-spelling-under-2.0', 0)
            t['remove'] += 1
            return ('remove',)
        if v == 'x:':
            if self.strict and v3:
                raise RefReject('remove-2.0-spelling-under-3.0', 0)
            t['remove'] += 1
            return ('remove',)
        p, body = v[:2], v[2:]
        if len(v) < 2 or v[1] != ':':
            if self.strict:
                raise RefReject('string-without-prefix', 0, repr(v[:20]))
            t['bare-str'] += 1
            return ('str', v)
        if p == 's:':
            t['str'] += 1
            return ('str', body)
        if p == 'n:':
            m = NUM_RE.match(body)
            if not m:
                raise RefReject('bad-number', 0, repr(body[:30]))
            txt, unit = m.group(1), m.group(2)
            val = {'INF': float('inf'), '-INF': float('-inf'), 'NaN': float('nan')}.get(txt)
            if val is None:
                val = float(txt)
            elif unit:
                raise RefReject('nonfinite-with-unit', 0)
            if unit is not None and unit == '':
                raise RefReject('empty-unit', 0)
            t['quantity' if unit else 'number'] += 1
            return ('num', val, unit)
        if p == 'r:':
            m = REFID_RE.match(body)
            if not m:
                raise RefReject('bad-ref', 0, repr(body[:30]))
            t['ref'] += 1
            return ('ref', m.group(1), m.group(2))
        if p == 'u:':
            t['uri'] += 1
            return ('uri', body)
        if p == 'b:':
            t['bin'] += 1
            return ('bin', body)
        if p == 'd:':
            m = DATE_RE.match(body)
            if not m:
                raise RefReject('bad-date', 0, repr(body[:30]))
            y, mo, d = [int(x) for x in m.groups()]
            self._check_date(y, mo, d)
            t['date'] += 1
            return ('date', y, mo, d)
        if p == 'h:':
            m = TIME_RE.match(body)
            if not m:
                raise RefReject('bad-time', 0, repr(body[:30]))
            h, mi = int(m.group(1)), int(m.group(2))
            s = int(m.group(3) or 0)
            if h > 23 or mi > 59 or s > 59:
                raise RefReject('bad-time', 0)
            t['time'] += 1
            return ('time', h, mi, s, int((m.group(4) or '')[:6].ljust(6, '0')))
        if p == 't:':
            m = DT_RE.match(body)
            if not m:
                raise RefReject('bad-datetime', 0, repr(body[:40]))
            y, mo, d, h, mi, s = [int(x) for x in m.groups()[:6]]
            self._check_date(y, mo, d)
            off = m.group(8)
            o = 0 if off in 'Zz' else (int(off[1:3]) * 60 + int(off[4:6])) * 60 * (1 if off[0] == '+' else -1)
            t['datetime'] += 1
            n = ('dt', (y, mo, d, h, mi, s, int((m.group(7) or '')[:6].ljust(6, '0'))), o, m.group(9))
            if n[3] is not None and self.strict:
                from vf import tzref
                why = tzref.check_zone_offset(n[3], n[1], n[2])
                if why:
                    raise RefReject('zone-offset-mismatch', 0, why)
            return n
        if p == 'c:':
            m = COORD_RE.match(body)
            if not m:
                raise RefReject('bad-coord', 0, repr(body[:30]))
            try:
                lat, lng = float(m.group(1)), float(m.group(2))
            except ValueError:
                raise RefReject('bad-coord', 0, repr(body[:30]))
            t['coord'] += 1
            return ('coord', lat, lng)
        if p == 'x:':
            if not v3:
                raise RefReject('xstr-under-2.0', 0)
            m = XSTR_RE.match(body)
            if not m:
                raise RefReject('bad-xstr', 0, repr(body[:30]))
            t['xstr'] += 1
            payload = m.group(2)
            if m.group(1) == 'hex':
                if len(payload) % 2 or re.search(r'[^0-9a-fA-F]', payload):
                    raise RefReject('xstr-payload-malformed', 0, payload[:20])
                payload = payload.lower()
            elif m.group(1) == 'b64':
                import base64
                import binascii
                try:
                    payload = base64.b64encode(base64.b64decode(payload.encode('ascii'), validate=True)).decode('ascii')
                except (binascii.Error, UnicodeEncodeError, ValueError):
                    raise RefReject('xstr-payload-malformed', 0, payload[:20])
            return ('xstr', m.group(1), payload)
        if self.strict:
            raise RefReject('unknown-prefix', 0, repr(v[:20]))
        t['bare-str'] += 1
        return ('str', v)

    def _check_date(self, y, mo, d):
        import datetime
        try:
            datetime.date(y, mo, d)
        except ValueError:
            raise RefReject('bad-date', 0)


def read(obj, strict=False, counts=None):
    r = Reader(strict)
    out = r.doc(obj)
    if counts is not None:
        counts.update(r.tokens)
    return out


class Writer(object):
    def __init__(self, rng=None, script=None, policy=None):
        self.policy = policy
        self.r = rng
        self.log = Counter()
        self.script = script
        self.trace = []

    def pick(self, dim, options):
        pos = len(self.trace)
        if self.policy is not None:
            want = self.policy.get(dim)
            i = options.index(want) if want in options else 0
        elif self.script is not None and pos < len(self.script):
            i = self.script[pos] % len(options)
        elif self.r is None:
            i = 0
        else:
            i = self.r.randrange(len(options))
        o = options[i]
        self.trace.append((dim, i, o))
        self.log['%s=%s' % (dim, o)] += 1
        return o

    def number(self, v, unit):
        if isinstance(v, float) and (math.isnan(v) or math.isinf(v)):
            self.log['number=nonfinite'] += 1
            return 'n:' + ('NaN' if math.isnan(v) else ('INF' if v > 0 else '-INF'))
        base = repr(v)
        cands = []
        if isinstance(v, int):
            cands = [('int', base), ('dot-zero', base + '.0'), ('exp', base + 'e0'), ('Exp-plus', base + 'E+0')]
        else:
            if 'e' in base:
                mant, ex = base.split('e')
                if '.' not in mant:
                    mant2 = mant
                else:
                    mant2 = mant
                cands = [('exp-repr', base), ('Exp-upper', mant2 + 'E' + ex)]
                if ex.startswith('+'):
                    cands.append(('exp-nosign', mant2 + 'e' + ex[1:]))
            else:
                cands = [('repr', base), ('trailing-zeros', base + '00'), ('exp-zero', base + 'e0'), ('Exp-minus-zero', base + 'E-0')]
        ok = [(n, t) for n, t in cands if re.fullmatch(r'-?\d+(?:\.\d+)?(?:[eE][+-]?\d+)?', t) and float(t) == float(v)]
        if not ok:
            ok = [('fixed', '%.17g' % v)]
            if not re.fullmatch(r'-?\d+(?:\.\d+)?(?:[eE][+-]?\d+)?', ok[0][1]):
                ok = [('repr', base)]
        opts = [n for n, _ in ok]
        if unit is None:
            opts = opts + ['raw-json']
        w = self.pick('number', opts)
        if w == 'raw-json':
            return v
        return 'n:' + dict(ok)[w] + ('' if unit is None else ' ' + unit)

    def time(self, n, allow_short=True):
        _, h, mi, s, us = n
        if us:
            frac = ('%06d' % us).rstrip('0')
            w = self.pick('time-fraction', ['minimal', 'six'])
            if w == 'six':
                frac = '%06d' % us
            return '%02d:%02d:%02d.%s' % (h, mi, s, frac)
        if s == 0 and allow_short:
            w = self.pick('time-seconds', ['absent', 'present', 'present-dot-zero'])
            if w == 'absent':
                return '%02d:%02d' % (h, mi)
            if w == 'present-dot-zero':
                return '%02d:%02d:00.0' % (h, mi)
        return '%02d:%02d:%02d' % (h, mi, s)

    def val(self, n, v3):
        k = n[0]
        if k == 'null':
            return None
        if k == 'marker':
            return 'm:'
        if k == 'na':
            return 'z:'
        if k == 'remove':
            return self.pick('remove', ['x:', '-:'])
        if k == 'bool':
            self.log['bool=raw'] += 1
            return n[1]
        if k == 'num':
            return self.number(n[1], n[2])
        if k == 'str':
            s = n[1]
            if s[1:2] != ':':
                w = self.pick('str', ['s:', 's:', 'bare'])
                if w == 'bare':
                    return s
            else:
                self.log['str=s:(forced)'] += 1
            return 's:' + s
        if k == 'uri':
            return 'u:' + n[1]
        if k == 'bin':
            return 'b:' + n[1]
        if k == 'ref':
            return 'r:' + n[1] + ('' if n[2] is None else ' ' + n[2])
        if k == 'xstr':
            payload = n[2]
            if n[1] == 'hex' and re.search('[a-f]', payload):
                if self.pick('hex-case', ['lower', 'upper']) == 'upper':
                    payload = payload.upper()
            return 'x:%s:%s' % (n[1], payload)
        if k == 'date':
            return 'd:%04d-%02d-%02d' % n[1:]
        if k == 'time':
            return 'h:' + self.time(n)
        if k == 'dt':
            _, (y, mo, d, h, mi, s, us), off, zone = n
            txt = 't:%04d-%02d-%02dT%s' % (y, mo, d, self.time(('time', h, mi, s, us), allow_short=False))
            if off == 0:
                txt += self.pick('dt-utc-offset', ['Z', '+00:00'])
            else:
                a = abs(off)
                txt += '%s%02d:%02d' % ('+' if off > 0 else '-', a // 3600, (a % 3600) // 60)
            if zone is not None:
                txt += ' ' + zone
                self.log['dt-zone=named'] += 1
            else:
                self.log['dt-zone=absent'] += 1
            return txt
        if k == 'coord':
            return 'c:%s,%s' % (self._deg(n[1]), self._deg(n[2]))
        if k == 'list':
            return [self.val(x, v3) for x in n[1]]
        if k == 'dict':
            return dict((kk, self.val(x, v3)) for kk, x in n[1])
        if k == 'grid':
            # a nested grid is recognised by its three keys: rows is always written for it
            return self.grid(n, nested=True)
        raise AssertionError(k)

    def _deg(self, v):
        base = repr(float(v))
        if 'e' in base:
            base = '%.12f' % v
        return base

    def grid(self, n, nested=False):
        n = concrete_ver(n)
        _, ver, meta, cols, rows = n
        v3 = not ver_lt3(ver)
        m = {}
        verpos = self.pick('ver-position', ['first', 'last'])
        if verpos == 'first':
            m['ver'] = ver
        for k, v in meta:
            m[k] = self.val(v, v3)
        if verpos == 'last':
            m['ver'] = ver
        cs = []
        for c, cm in cols:
            o = {}
            namepos = self.pick('name-position', ['first', 'last'])
            if namepos == 'first':
                o['name'] = c
            for k, v in cm:
                o[k] = self.val(v, v3)
            if namepos == 'last':
                o['name'] = c
            cs.append(o)
        out = {'meta': m, 'cols': cs}
        if not rows:
            w = self.pick('empty-rows', ['[]', 'missing', 'null']) if not nested else self.pick('empty-rows-nested', ['[]', 'null'])
            if w == '[]':
                out['rows'] = []
            elif w == 'null':
                out['rows'] = None
            return out
        rs = []
        for row in rows:
            o = {}
            d = dict(row)
            for c, _ in cols:
                v = d.get(c, ('null',))
                if v == ('null',):
                    w = self.pick('null-cell', ['omitted', 'explicit-null'])
                    if w == 'omitted':
                        continue
                    o[c] = None
                else:
                    o[c] = self.val(v, v3)
            rs.append(o)
        out['rows'] = rs
        return out

    def doc(self, grids, array=None):
        if array is None:
            array = len(grids) != 1
        if array:
            self.log['doc=array'] += 1
            return [self.grid(g) for g in grids]
        self.log['doc=object'] += 1
        return self.grid(grids[0])
