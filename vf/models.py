"""Small executable reference models (the oracles of C14, C15, C16)."""


class Rejected(Exception):
    """The model refuses the operation; .cls is the exception class name the API documents."""

    def __init__(self, cls):
        Exception.__init__(self, cls)
        self.cls = cls


class OrderedMapModel(object):
    """Documented semantics of SortableDict / MetadataObject.

    store            append, or replace in place
    index=i (>=0)    new key: list.insert position i (+1 with after); existing key: the key is
                     taken out and put back so that it ends at position min(i, len-1)
    pos_key=K        key lands immediately before K (after=True: immediately after K),
                     wherever it was before
    errors           both index and pos_key -> ValueError; unknown pos_key -> KeyError;
                     existing key with replace=False -> KeyError; all leave the map unchanged
    """

    def __init__(self, items=()):
        self.items = list(items)

    def copy(self):
        return OrderedMapModel(self.items)

    def keys(self):
        return [k for k, _ in self.items]

    def add_item(self, key, value, after=False, index=None, pos_key=None, replace=True):
        keys = self.keys()
        if index is not None and pos_key is not None:
            raise Rejected('ValueError')
        if pos_key is not None and pos_key not in keys:
            raise Rejected('KeyError')
        if key in keys and not replace:
            raise Rejected('KeyError')
        if key in keys and index is None and pos_key is None:
            i = keys.index(key)
            self.items[i] = (key, value)
            return
        rest = [(k, v) for k, v in self.items if k != key]
        if pos_key is not None:
            i = [k for k, _ in rest].index(pos_key) + (1 if after else 0)
        elif index is not None:
            i = min(index + (1 if after else 0), len(rest))
        else:
            i = len(rest)
        rest.insert(i, (key, value))
        self.items = rest

    def delete(self, key):
        if key not in self.keys():
            raise Rejected('KeyError')
        self.items = [(k, v) for k, v in self.items if k != key]

    def pop_at(self, i):
        if not (0 <= i < len(self.items)):
            raise Rejected('IndexError')
        k, v = self.items[i]
        del self.items[i]
        return v

    def sort(self, key=None, reverse=False):
        # list.sort on the keys: stable, also in descending order
        self.items.sort(key=(lambda kv: kv[0]) if key is None else (lambda kv: key(kv[0])), reverse=reverse)

    def reverse(self):
        self.items.reverse()


class ListModel(object):
    """A Grid is a list of row dicts: the model *is* a Python list."""

    def __init__(self, rows=()):
        self.rows = list(rows)
