#!/bin/bash
# MANIFEST.setup_cmd: offline install of the runtime-contract libraries beside the
# repository's interpreter.  Idempotent; the launcher re-runs it lazily.
set -e
cd "$(dirname "$0")"
if [ ! -d .deps/icontract ]; then
  PIP_NO_INDEX=1 /venv/bin/pip install --quiet --no-index --find-links /opt/veriftools/wheels \
      --target .deps icontract deal jsonschema >/dev/null 2>&1 || {
        echo "setup: offline install of icontract/deal/jsonschema failed" >&2; exit 1; }
fi
/venv/bin/python -B -c "import sys; sys.path.insert(0,'.deps'); import icontract, jsonschema" 
echo "setup ok"
